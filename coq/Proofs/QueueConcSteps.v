(* Every step of the concurrent queue model preserves the invariant CInv. *)
Require Import NX.Base.Prelude NX.Base.ListX NX.Model.QueueConc NX.Proofs.QueueConcInv NX.Proofs.IPQOrder.

Section Steps.
  Variable V : Type.
  Notation cstate := (cstate V).
  Notation prod := (prod V).
  Notation CInv := (CInv V).
  Notation prod_ok := (prod_ok V).
  Notation slot_ok := (slot_ok V).
  Notation con_ok := (con_ok V).
  Notation rel := (rel V).
  Notation taken := (taken V).
  Notation in_flight := (in_flight V).

  Ltac proj := cbn [cap enq closed deq slots prods con log popped cerr upd_glob set_prod set_con
                    ppc ppos pclo pst pvals pout ptix mkprod cpc cdeq cst cleft cout mkcons] in *.

  (* a producer's invariant only depends on a few monotone aspects of the global state *)
  Lemma prod_ok_frame (s s' : cstate) q :
    prod_ok s q ->
    enq s <= enq s' ->
    (forall n v, nth_error (log s) n = Some v -> nth_error (log s') n = Some v) ->
    (forall x, fst (slot_at s x) <= fst (slot_at s' x)) ->
    (in_flight q -> rel s' <= ppos q /\ deq s' <= ppos q /\ slot_at s' (ppos q) = slot_at s (ppos q)) ->
    prod_ok s' q.
  Proof.
    intros (H1 & H2 & H3 & H4 & H5 & H6 & H7) He Hl Hs Hf.
    split; [exact H1|]. split; [exact H2|]. split; [intros Hp; specialize (H3 Hp); lia|].
    split; [intros Hp; destruct (H4 Hp) as [A B]; split; [exact A|specialize (Hs (ppos q)); lia]|].
    split; [|split; [intros n v Hin; apply Hl; eapply H6; eauto|exact H7]].
    intros Hfl. destruct (H5 Hfl) as (A & B & C & D & (v & rest & E1 & E2 & E3 & E4)).
    destruct (Hf Hfl) as (F1 & F2 & F3). rewrite F3.
    split; [lia|]. split; [exact F2|]. split; [exact C|]. split; [exact D|].
    exists v, rest. split; [exact E1|]. split; [apply Hl; exact E2|]. split; assumption.
  Qed.

  (* only the local state of producer i changes *)
  Lemma cinv_set_prod (s : cstate) i p p' :
    CInv s -> nth_error (prods s) i = Some p -> prod_ok s p' ->
    (in_flight p' -> in_flight p /\ ppos p' = ppos p) ->
    CInv (set_prod s i p').
  Proof.
    intros [C1 C2 C3 C4 C5 C6 C7 C8 C9 C10 C11] Hi Hp' Hfl.
    constructor; try assumption.
    - intros j q Hj. apply nth_error_lupd_inv in Hj. destruct Hj as [[-> ->]|[Hne Hj]]; [exact Hp'|exact (C8 j q Hj)].
    - intros j k q r Hj Hk Hne Fq Fr. proj.
      apply nth_error_lupd_inv in Hj. apply nth_error_lupd_inv in Hk.
      destruct Hj as [[-> ->]|[Hj1 Hj]], Hk as [[-> ->]|[Hk1 Hk]].
      + congruence.
      + destruct (Hfl Fq) as [Fp ->]. eapply (C9 i k); eauto.
      + destruct (Hfl Fr) as [Fp ->]. eapply (C9 j i); eauto.
      + eapply (C9 j k); eauto.
  Qed.

  Lemma in_flight_pc (p : prod) : in_flight p <-> (ppc p = 3 \/ ppc p = 4).
  Proof. reflexivity. Qed.

  (* ---------------- the successful compare-exchange: ticket enq is claimed ---------------- *)
  Lemma cas_success (s : cstate) i p v rest :
    CInv s -> nth_error (prods s) i = Some p -> ppc p = 2 -> pvals p = v :: rest ->
    pst p = 2 * ppos p -> enq s = ppos p ->
    CInv (set_prod (upd_glob s (S (enq s)) (closed s) (deq s) (slots s) (log s ++ [v]) (popped s) (cerr s))
                   i (mkprod 3 (ppos p) false (pst p) (pvals p) (pout p) ((ppos p, v) :: ptix p))).
  Proof.
    intros [C1 C2 C3 C4 C5 C6 C7 C8 C9 C10 C11] Hi Hpc Hv Hst He.
    destruct (C8 i p Hi) as (P1 & P2 & P3 & P4 & P5 & P6 & P7). destruct (P4 Hpc) as [Pclo Pst].
    (* the queue is not full: otherwise the slot of ticket enq still carries the previous lap *)
    assert (Hroom : enq s < rel s + cap s).
    { destruct (Nat.eq_dec (enq s) (rel s + cap s)) as [Efull|]; [|lia]. exfalso.
      rewrite <- He, Efull, slot_at_lap in Pst by exact C1.
      assert (Hw : rel s <= rel s < rel s + cap s) by lia.
      destruct (C7 _ Hw) as [Hlt _]. destruct (Hlt ltac:(lia)) as [[E _]|E]; lia. }
    assert (Hslot : slot_at s (enq s) = (2 * enq s, CVac)).
    { assert (Hw : rel s <= enq s < rel s + cap s) by (unfold QueueConcInv.rel in *; destruct (Nat.leb 3 (cpc (con s))); lia).
      destruct (C7 _ Hw) as [_ Hge]. apply Hge. lia. }
    assert (Hrel_le : rel s <= deq s) by (unfold QueueConcInv.rel; destruct (Nat.leb 3 (cpc (con s))); lia).
    assert (Hlog : forall n x, nth_error (log s) n = Some x -> nth_error (log s ++ [v]) n = Some x).
    { intros n x Hn. rewrite nth_error_app1; [exact Hn|]. apply nth_error_Some. congruence. }
    constructor; proj.
    - exact C1.
    - exact C2.
    - rewrite app_length. cbn [length]. lia.
    - exact C4.
    - lia.
    - change (S (enq s) <= rel s + cap s). lia.
    - intros m Hm. change (rel s <= m < rel s + cap s) in Hm. destruct (C7 m Hm) as [Hlt Hge].
      split.
      + intros Hm1. proj. destruct (Nat.eq_dec m (enq s)) as [->|Hne].
        * right. change (fst (slot_at s (enq s)) = 2 * enq s). rewrite Hslot. reflexivity.
        * destruct (Hlt ltac:(lia)) as [[E (A & B)]|E]; [left|right; exact E].
          split; [exact E|]. split.
          -- intros Hd. destruct (A Hd) as (x & Hx & Hc). exists x. split; [apply Hlog; exact Hx|exact Hc].
          -- intros Hd. destruct (B Hd) as (B1 & B2 & B3). split; [|split; assumption].
             intros Hc3. destruct (B1 Hc3) as (x & Hx & Hc). exists x. split; [apply Hlog; exact Hx|exact Hc].
      + intros Hm1. proj. apply Hge. lia.
    - intros j q Hj. apply nth_error_lupd_inv in Hj. destruct Hj as [[-> ->]|[Hne Hj]].
      + (* the claiming producer *)
        unfold QueueConcInv.prod_ok. proj. split; [lia|]. split; [rewrite Hv; discriminate|]. split; [intros _; lia|].
        split; [intros Hc; discriminate|]. split; [|split].
        * intros _. change (rel s <= ppos p < S (enq s) /\ deq s <= ppos p /\ pst p = 2 * ppos p /\
                            fst (slot_at s (ppos p)) = 2 * ppos p /\
                            exists v0 rest0, pvals p = v0 :: rest0 /\ nth_error (log s ++ [v]) (ppos p) = Some v0 /\
                              (3 = 3 -> snd (slot_at s (ppos p)) = CVac) /\ (3 = 4 -> snd (slot_at s (ppos p)) = CPop v0)).
          rewrite <- He, Hslot. cbn [fst snd]. repeat (split; [lia|]).
          exists v, rest. split; [exact Hv|]. split; [|split; [reflexivity|discriminate]].
          rewrite nth_error_app2, C3, Nat.sub_diag by lia. reflexivity.
        * intros n x [Hin|Hin]; [injection Hin as <- <-; rewrite <- He, nth_error_app2, C3, Nat.sub_diag by lia; reflexivity|].
          apply Hlog. eapply P6; eauto.
        * cbn [map fst QueueConcInv.sdesc]. split; [|exact P7].
          destruct (ptix p) as [|[n x] r] eqn:Et; [exact I|]. cbn [map fst].
          assert (Hn : nth_error (log s) n = Some x) by (apply (P6 n x); left; reflexivity).
          apply nth_error_some_lt in Hn. lia.
      + (* the others *)
        eapply prod_ok_frame; [exact (C8 j q Hj)|proj; lia|exact Hlog|intros x; apply Nat.le_refl|].
        intros Fq. destruct (C8 j q Hj) as (_ & _ & _ & _ & Q5 & _). destruct (Q5 Fq) as (A & B & _).
        split; [exact (proj1 A)|]. split; [exact B|reflexivity].
    - intros j k q r Hj Hk Hne Fq Fr. proj.
      apply nth_error_lupd_inv in Hj. apply nth_error_lupd_inv in Hk.
      destruct Hj as [[-> ->]|[Hj1 Hj]], Hk as [[-> ->]|[Hk1 Hk]]; proj.
      + congruence.
      + destruct (C8 k r Hk) as (_ & _ & _ & _ & Q5 & _). destruct (Q5 Fr) as (A & _). lia.
      + destruct (C8 j q Hj) as (_ & _ & _ & _ & Q5 & _). destruct (Q5 Fq) as (A & _). lia.
      + eapply (C9 j k); eauto.
    - destruct C10 as (K1 & K2 & K3 & K4). unfold QueueConcInv.con_ok. proj.
      split; [exact K1|]. split; [exact K2|]. split; [|exact K4].
      intros Hc. destruct (K3 Hc) as [E|(E1 & E2 & E3)]; [left; exact E|right].
      split; [exact E1|]. split; [exact E2|lia].
    - change (popped s = firstn (taken s) (log s ++ [v])).
      rewrite firstn_app. replace (taken s - length (log s)) with 0.
      + cbn [firstn]. rewrite app_nil_r. exact C11.
      + unfold QueueConcInv.taken. destruct (Nat.eqb (cpc (con s)) 3); lia.
  Qed.

  (* ---------------- writes to one slot ---------------- *)
  Lemma slot_at_write (s : cstate) e c d n x lg pp er m :
    length (slots s) = cap s -> 1 <= cap s ->
    slot_at (upd_glob s e c d (set_slot s n x) lg pp er) m =
    if Nat.eqb (m mod cap s) (n mod cap s) then x else slot_at s m.
  Proof. intros Hl Hc. unfold slot_at at 1. proj. apply slot_at_set; assumption. Qed.

  Lemma window_eqb c a m n : 1 <= c -> a <= m < a + c -> a <= n < a + c ->
    Nat.eqb (m mod c) (n mod c) = Nat.eqb m n.
  Proof.
    intros Hc Hm Hn. destruct (Nat.eqb_spec m n) as [->|Hne]; [apply Nat.eqb_refl|].
    apply Nat.eqb_neq. intros E. apply Hne. eapply mod_window; eauto.
  Qed.

  Lemma rel_le_deq (s : cstate) : rel s <= deq s.
  Proof. unfold QueueConcInv.rel. destruct (Nat.leb 3 (cpc (con s))); lia. Qed.

  (* producer at pc 3 writes its message into the claimed cell *)
  Lemma write_cell (s : cstate) i p v rest :
    CInv s -> nth_error (prods s) i = Some p -> ppc p = 3 -> pvals p = v :: rest ->
    CInv (set_prod (upd_glob s (enq s) (closed s) (deq s)
                             (set_slot s (ppos p) (fst (slot_at s (ppos p)), CPop v)) (log s) (popped s)
                             (cerr s + match snd (slot_at s (ppos p)) with CVac => 0 | _ => 1 end))
                   i (mkprod 4 (ppos p) false (pst p) (pvals p) (pout p) (ptix p))).
  Proof.
    intros [C1 C2 C3 C4 C5 C6 C7 C8 C9 C10 C11] Hi Hpc Hv.
    destruct (C8 i p Hi) as (P1 & P2 & P3 & P4 & P5 & P6 & P7).
    destruct (P5 (or_introl Hpc)) as (W & Dq & Est & Efst & (v' & rest' & Ev & Elog & Ec3 & _)).
    rewrite Hv in Ev. injection Ev as <- <-.
    assert (Hwin : rel s <= ppos p < rel s + cap s) by lia.
    match goal with |- CInv ?x => set (s' := x) end.
    assert (Hat : forall m, slot_at s' m = if Nat.eqb (m mod cap s) (ppos p mod cap s)
                                           then (fst (slot_at s (ppos p)), CPop v) else slot_at s m).
    { intros m. unfold s'. apply (slot_at_write s); assumption. }
    assert (Hfst : forall x, fst (slot_at s' x) = fst (slot_at s x)).
    { intros x. rewrite Hat. destruct (Nat.eqb_spec (x mod cap s) (ppos p mod cap s)) as [E|_]; [|reflexivity].
      cbn [fst]. unfold slot_at. rewrite E. reflexivity. }
    assert (Hother : forall m, rel s <= m < rel s + cap s -> m <> ppos p -> slot_at s' m = slot_at s m).
    { intros m Hm Hne. rewrite Hat, (window_eqb _ (rel s)) by assumption.
      destruct (Nat.eqb_spec m (ppos p)); [congruence|reflexivity]. }
    assert (Eenq : enq s' = enq s) by reflexivity. assert (Edeq : deq s' = deq s) by reflexivity.
    assert (Elg : log s' = log s) by reflexivity. assert (Econ : con s' = con s) by reflexivity.
    assert (Ecap : cap s' = cap s) by reflexivity. assert (Erel : rel s' = rel s) by reflexivity.
    assert (Etk : taken s' = taken s) by reflexivity. assert (Epp : popped s' = popped s) by reflexivity.
    constructor; rewrite ?Eenq, ?Edeq, ?Elg, ?Econ, ?Ecap, ?Erel, ?Etk, ?Epp.
    - exact C1.
    - unfold s', set_slot. proj. rewrite lupd_length. exact C2.
    - exact C3.
    - unfold s'. proj. rewrite (Ec3 Hpc). lia.
    - exact C5.
    - exact C6.
    - intros m Hm. destruct (C7 m Hm) as [Hlt Hge].
      unfold QueueConcInv.slot_ok, QueueConcInv.published_ok. rewrite ?Eenq, ?Edeq, ?Elg, ?Econ.
      destruct (Nat.eq_dec m (ppos p)) as [->|Hne].
      + split; [intros _; right|intros Hc; lia]. rewrite Hfst. exact Efst.
      + rewrite (Hother m Hm Hne). exact (conj Hlt Hge).
    - intros j q Hj. unfold s' in Hj. proj. apply nth_error_lupd_inv in Hj. destruct Hj as [[-> ->]|[Hne Hj]].
      + unfold QueueConcInv.prod_ok, QueueConcInv.in_flight. rewrite ?Eenq, ?Edeq, ?Elg, ?Econ, ?Erel. proj.
        split; [lia|]. split; [rewrite Hv; discriminate|]. split; [intros _; exact (P3 ltac:(lia))|].
        split; [intros Hc; discriminate|]. split; [|split; [exact P6|exact P7]].
        intros _. rewrite Hfst. repeat (split; [assumption || lia|]).
        exists v, rest. split; [exact Hv|]. split; [exact Elog|]. split; [discriminate|].
        intros _. rewrite Hat, Nat.eqb_refl. reflexivity.
      + eapply (prod_ok_frame s); [exact (C8 j q Hj)|rewrite Eenq; apply Nat.le_refl|rewrite Elg; auto| |].
        * intros x. rewrite Hfst. apply Nat.le_refl.
        * intros Fq. destruct (C8 j q Hj) as (_ & _ & _ & _ & Q5 & _). destruct (Q5 Fq) as (A & B & _).
          rewrite Erel, Edeq. split; [exact (proj1 A)|]. split; [exact B|].
          apply Hother; [lia|]. intros E. eapply (C9 j i q p); eauto. left. exact Hpc.
    - intros j k q r Hj Hk Hne Fq Fr. unfold s' in Hj, Hk. proj.
      apply nth_error_lupd_inv in Hj. apply nth_error_lupd_inv in Hk.
      destruct Hj as [[-> ->]|[Hj1 Hj]], Hk as [[-> ->]|[Hk1 Hk]]; proj.
      + congruence.
      + eapply (C9 i k p r); eauto. left; exact Hpc.
      + eapply (C9 j i q p); eauto. left; exact Hpc.
      + eapply (C9 j k); eauto.
    - destruct C10 as (K1 & K2 & K3 & K4). unfold QueueConcInv.con_ok. rewrite ?Eenq, ?Edeq, ?Econ.
      split; [exact K1|]. split; [exact K2|]. split.
      + intros Hc. destruct (K3 Hc) as [E|(E1 & E2 & E3)]; [left; exact E|right].
        split; [exact E1|]. split; [|exact E3]. rewrite Hfst. exact E2.
      + intros Hc. destruct (K4 Hc) as (E1 & E2 & E3). split; [exact E1|]. split; [exact E2|].
        rewrite Hfst. exact E3.
    - exact C11.
  Qed.

  (* producer at pc 4 publishes its message: Release store of stamp + 1 *)
  Lemma publish (s : cstate) i p v rest :
    CInv s -> nth_error (prods s) i = Some p -> ppc p = 4 -> pvals p = v :: rest ->
    CInv (set_prod (upd_glob s (enq s) (closed s) (deq s)
                             (set_slot s (ppos p) (S (pst p), snd (slot_at s (ppos p)))) (log s) (popped s) (cerr s))
                   i (mkprod 0 (ppos p) false (pst p) rest (PrOk :: pout p) (ptix p))).
  Proof.
    intros [C1 C2 C3 C4 C5 C6 C7 C8 C9 C10 C11] Hi Hpc Hv.
    destruct (C8 i p Hi) as (P1 & P2 & P3 & P4 & P5 & P6 & P7).
    destruct (P5 (or_intror Hpc)) as (W & Dq & Est & Efst & (v' & rest' & Ev & Elog & _ & Ec4)).
    rewrite Hv in Ev. injection Ev as <- <-.
    assert (Hwin : rel s <= ppos p < rel s + cap s) by lia.
    match goal with |- CInv ?x => set (s' := x) end.
    assert (Hat : forall m, slot_at s' m = if Nat.eqb (m mod cap s) (ppos p mod cap s)
                                           then (S (pst p), snd (slot_at s (ppos p))) else slot_at s m).
    { intros m. unfold s'. apply (slot_at_write s); assumption. }
    assert (Hmono : forall x, fst (slot_at s x) <= fst (slot_at s' x)).
    { intros x. rewrite Hat. destruct (Nat.eqb_spec (x mod cap s) (ppos p mod cap s)) as [E|_]; [|apply Nat.le_refl].
      cbn [fst]. unfold slot_at in Efst |- *. rewrite E. lia. }
    assert (Hother : forall m, rel s <= m < rel s + cap s -> m <> ppos p -> slot_at s' m = slot_at s m).
    { intros m Hm Hne. rewrite Hat, (window_eqb _ (rel s)) by assumption.
      destruct (Nat.eqb_spec m (ppos p)); [congruence|reflexivity]. }
    assert (Eenq : enq s' = enq s) by reflexivity. assert (Edeq : deq s' = deq s) by reflexivity.
    assert (Elg : log s' = log s) by reflexivity. assert (Econ : con s' = con s) by reflexivity.
    assert (Ecap : cap s' = cap s) by reflexivity. assert (Erel : rel s' = rel s) by reflexivity.
    assert (Etk : taken s' = taken s) by reflexivity. assert (Epp : popped s' = popped s) by reflexivity.
    assert (Hrd : rel s <= deq s) by apply rel_le_deq.
    constructor; rewrite ?Eenq, ?Edeq, ?Elg, ?Econ, ?Ecap, ?Erel, ?Etk, ?Epp.
    - exact C1.
    - unfold s', set_slot. proj. rewrite lupd_length. exact C2.
    - exact C3.
    - exact C4.
    - exact C5.
    - exact C6.
    - intros m Hm. destruct (C7 m Hm) as [Hlt Hge].
      unfold QueueConcInv.slot_ok, QueueConcInv.published_ok. rewrite ?Eenq, ?Edeq, ?Elg, ?Econ.
      destruct (Nat.eq_dec m (ppos p)) as [->|Hne].
      + split; [intros _; left|intros Hc; lia]. rewrite Hat, Nat.eqb_refl. cbn [fst snd].
        split; [lia|]. split; [intros _; exists v; split; [exact Elog|exact (Ec4 Hpc)]|intros Hc; lia].
      + rewrite (Hother m Hm Hne). exact (conj Hlt Hge).
    - intros j q Hj. unfold s' in Hj. proj. apply nth_error_lupd_inv in Hj. destruct Hj as [[-> ->]|[Hne Hj]].
      + unfold QueueConcInv.prod_ok, QueueConcInv.in_flight. rewrite ?Eenq, ?Edeq, ?Elg, ?Econ, ?Erel. proj.
        split; [lia|]. split; [reflexivity|]. split; [intros Hc; lia|].
        split; [intros Hc; discriminate|]. split; [intros [Hc|Hc]; discriminate|split; [exact P6|exact P7]].
      + eapply (prod_ok_frame s); [exact (C8 j q Hj)|rewrite Eenq; apply Nat.le_refl|rewrite Elg; auto|exact Hmono|].
        intros Fq. destruct (C8 j q Hj) as (_ & _ & _ & _ & Q5 & _). destruct (Q5 Fq) as (A & B & _).
        rewrite Erel, Edeq. split; [exact (proj1 A)|]. split; [exact B|].
        apply Hother; [lia|]. intros E. eapply (C9 j i q p); eauto. right. exact Hpc.
    - intros j k q r Hj Hk Hne Fq Fr. unfold s' in Hj, Hk. proj.
      apply nth_error_lupd_inv in Hj. apply nth_error_lupd_inv in Hk.
      destruct Hj as [[-> ->]|[Hj1 Hj]], Hk as [[-> ->]|[Hk1 Hk]]; proj.
      + congruence.
      + destruct Fq as [Fq|Fq]; discriminate.
      + destruct Fr as [Fr|Fr]; discriminate.
      + eapply (C9 j k); eauto.
    - destruct C10 as (K1 & K2 & K3 & K4). unfold QueueConcInv.con_ok. rewrite ?Eenq, ?Edeq, ?Econ.
      split; [exact K1|]. split; [exact K2|]. split.
      + intros Hc. destruct (K3 Hc) as [E|(E1 & E2 & E3)]; [left; exact E|right].
        split; [exact E1|]. split; [|exact E3].
        assert (Hrel : rel s = deq s) by (unfold QueueConcInv.rel; rewrite Hc; cbn; lia).
        rewrite Hother; [exact E2|lia|]. intros E. rewrite E in E2. lia.
      + intros Hc. destruct (K4 Hc) as (E1 & E2 & E3). split; [exact E1|]. split; [exact E2|].
        assert (Hrel : rel s = cdeq (con s)).
        { unfold QueueConcInv.rel. destruct (Nat.leb_spec 3 (cpc (con s))); lia. }
        rewrite Hother; [exact E3|lia|lia].
    - exact C11.
  Qed.

  Lemma not_in_flight_pc (p : prod) : ppc p <= 2 -> in_flight p -> False.
  Proof. intros H [E|E]; lia. Qed.

  Lemma prod_step_inv (s s' : cstate) i p b :
    CInv s -> nth_error (prods s) i = Some p -> prod_step s i p b = Some s' -> CInv s'.
  Proof.
    intros HI Hi Hstep. pose proof (ci_prod V s HI i p Hi) as (P1 & P2 & P3 & P4 & P5 & P6 & P7).
    unfold prod_step in Hstep. destruct (pvals p) as [|v rest] eqn:Hv; [discriminate|].
    destruct (ppc p) as [|[|[|[|[|n]]]]] eqn:Hpc; try discriminate.
    - (* load enqueue_pos *)
      injection Hstep as <-. apply (cinv_set_prod s i p); [exact HI|exact Hi| |intros [E|E]; discriminate].
      unfold QueueConcInv.prod_ok, QueueConcInv.in_flight. proj.
      split; [lia|]. split; [discriminate|]. split; [intros _; lia|]. split; [intros Hc; discriminate|].
      split; [intros [E|E]; discriminate|split; [exact P6|exact P7]].
    - destruct (pclo p) eqn:Hclo; injection Hstep as <-.
      + (* closed: the push fails *)
        apply (cinv_set_prod s i p); [exact HI|exact Hi| |intros [E|E]; discriminate].
        unfold QueueConcInv.prod_ok, QueueConcInv.in_flight. proj.
        split; [lia|]. split; [reflexivity|]. split; [intros Hc; lia|]. split; [intros Hc; discriminate|].
        split; [intros [E|E]; discriminate|split; [exact P6|exact P7]].
      + (* load the stamp of the slot *)
        apply (cinv_set_prod s i p); [exact HI|exact Hi| |intros [E|E]; discriminate].
        unfold QueueConcInv.prod_ok, QueueConcInv.in_flight. proj.
        split; [lia|]. split; [discriminate|]. split; [intros _; apply P3; lia|].
        split; [intros _; split; [reflexivity|apply Nat.le_refl]|].
        split; [intros [E|E]; discriminate|split; [exact P6|exact P7]].
    - destruct (Nat.eqb_spec (pst p) (2 * ppos p)) as [Est|Est].
      + destruct (negb b && negb (closed s) && Nat.eqb (enq s) (ppos p)) eqn:Hcas; injection Hstep as <-.
        * (* compare-exchange succeeded *)
          apply andb_true_iff in Hcas. destruct Hcas as [_ He]. apply Nat.eqb_eq in He.
          rewrite <- Hv. eapply cas_success; eauto.
        * (* compare-exchange failed: retry with the value found *)
          apply (cinv_set_prod s i p); [exact HI|exact Hi| |intros [E|E]; discriminate].
          unfold QueueConcInv.prod_ok, QueueConcInv.in_flight. proj.
          split; [lia|]. split; [discriminate|]. split; [intros _; lia|]. split; [intros Hc; discriminate|].
          split; [intros [E|E]; discriminate|split; [exact P6|exact P7]].
      + destruct (Nat.ltb (pst p) (2 * ppos p)); injection Hstep as <-.
        * (* stamp behind: Full *)
          apply (cinv_set_prod s i p); [exact HI|exact Hi| |intros [E|E]; discriminate].
          unfold QueueConcInv.prod_ok, QueueConcInv.in_flight. proj.
          split; [lia|]. split; [reflexivity|]. split; [intros Hc; lia|]. split; [intros Hc; discriminate|].
          split; [intros [E|E]; discriminate|split; [exact P6|exact P7]].
        * (* stamp ahead: reload enqueue_pos *)
          apply (cinv_set_prod s i p); [exact HI|exact Hi| |intros [E|E]; discriminate].
          unfold QueueConcInv.prod_ok, QueueConcInv.in_flight. proj.
          split; [lia|]. split; [discriminate|]. split; [intros _; lia|]. split; [intros Hc; discriminate|].
          split; [intros [E|E]; discriminate|split; [exact P6|exact P7]].
    - (* write the cell *)
      destruct (slot_at s (ppos p)) as [st c] eqn:Eslot. injection Hstep as <-.
      pose proof (write_cell s i p v rest HI Hi Hpc Hv) as H. rewrite Eslot in H. cbn [fst snd] in H. rewrite Hv in H. exact H.
    - (* publish *)
      destruct (slot_at s (ppos p)) as [st c] eqn:Eslot. injection Hstep as <-.
      pose proof (publish s i p v rest HI Hi Hpc Hv) as H. rewrite Eslot in H. cbn [fst snd] in H. exact H.
  Qed.

  (* ---------------- the consumer ---------------- *)
  Lemma rel_low (s : cstate) : cpc (con s) <= 2 -> rel s = deq s.
  Proof. intros H. unfold QueueConcInv.rel. destruct (Nat.leb_spec 3 (cpc (con s))); lia. Qed.
  Lemma taken_low (s : cstate) : cpc (con s) <= 2 -> taken s = deq s.
  Proof. intros H. unfold QueueConcInv.taken. destruct (Nat.eqb_spec (cpc (con s)) 3); lia. Qed.

  (* only the consumer's local state changes, before and after in the "no borrow" phases *)
  Lemma cinv_set_con_low (s : cstate) c' :
    CInv s -> cpc (con s) <= 2 -> cpc c' <= 2 -> con_ok (set_con s c') -> CInv (set_con s c').
  Proof.
    intros [C1 C2 C3 C4 C5 C6 C7 C8 C9 C10 C11] Hlow Hlow' Hcon.
    assert (Hr : rel (set_con s c') = rel s).
    { rewrite (rel_low s Hlow). apply (rel_low (set_con s c')). exact Hlow'. }
    assert (Ht : taken (set_con s c') = taken s).
    { rewrite (taken_low s Hlow). apply (taken_low (set_con s c')). exact Hlow'. }
    constructor; rewrite ?Hr, ?Ht; try assumption.
    - intros m Hm. destruct (C7 m Hm) as [Hlt Hge]. split; [|exact Hge].
      intros Hm1. destruct (Hlt Hm1) as [[E [A B]]|E]; [left|right; exact E].
      split; [exact E|]. split; [exact A|]. intros Hd. exfalso. rewrite (rel_low s Hlow) in Hm. proj. lia.
    - intros j q Hj. eapply (prod_ok_frame s); [exact (C8 j q Hj)|apply Nat.le_refl|auto|intros x; apply Nat.le_refl|].
      intros Fq. destruct (C8 j q Hj) as (_ & _ & _ & _ & Q5 & _). destruct (Q5 Fq) as (A & B & _).
      rewrite Hr. split; [exact (proj1 A)|]. split; [exact B|reflexivity].
  Qed.

  Lemma cons_step_inv (s s' : cstate) : CInv s -> cons_step s = Some s' -> CInv s'.
  Proof.
    intros HI Hstep. pose proof HI as [C1 C2 C3 C4 C5 C6 C7 C8 C9 C10 C11].
    destruct C10 as (K1 & K2 & K3 & K4).
    unfold cons_step in Hstep. destruct (cpc (con s)) as [|[|[|[|[|[|n]]]]]] eqn:Hpc; try discriminate.
    - (* load dequeue_pos *)
      destruct (cleft (con s)) as [|l]; [discriminate|]. injection Hstep as <-.
      apply cinv_set_con_low; [exact HI|lia|proj; lia|].
      unfold QueueConcInv.con_ok. proj. split; [lia|]. split; [intros _; reflexivity|].
      split; [intros Hc; discriminate|intros Hc; lia].
    - (* load the stamp *)
      injection Hstep as <-. apply cinv_set_con_low; [exact HI|lia|proj; lia|].
      unfold QueueConcInv.con_ok. proj. specialize (K2 ltac:(lia)).
      split; [lia|]. split; [intros _; exact K2|]. split; [|intros Hc; lia].
      intros _. rewrite K2. change (slot_at (set_con s _) (deq s)) with (slot_at s (deq s)).
      assert (Hw : rel s <= deq s < rel s + cap s) by (rewrite (rel_low s) by lia; lia).
      destruct (C7 _ Hw) as [Hlt Hge]. destruct (Nat.lt_ge_cases (deq s) (enq s)) as [L|L].
      + destruct (Hlt L) as [[E _]|E]; [right; repeat split; assumption|left; exact E].
      + left. rewrite (Hge L). reflexivity.
    - specialize (K2 ltac:(lia)). specialize (K3 eq_refl).
      destruct (Nat.eqb_spec (cst (con s)) (2 * cdeq (con s))) as [Est|Est]; injection Hstep as <-.
      + (* nothing to pop *)
        apply cinv_set_con_low; [exact HI|lia|proj; lia|].
        unfold QueueConcInv.con_ok. proj. split; [lia|]. split; [intros Hc; lia|].
        split; [intros Hc; discriminate|intros Hc; lia].
      + (* a message is there: advance dequeue_pos *)
        destruct K3 as [E|(E1 & E2 & E3)]; [rewrite K2 in Est; contradiction|].
        match goal with |- context [if Nat.eqb ?a ?b then 0 else 1] => destruct (Nat.eqb_spec a b); [|lia] end.
        rewrite Nat.add_0_r. rewrite K2.
        match goal with |- CInv ?x => set (s1 := x) end.
        assert (Hrel : rel s1 = rel s) by (unfold QueueConcInv.rel, s1; proj; rewrite Hpc; cbn; lia).
        assert (Hrd : rel s = deq s) by (apply rel_low; lia).
        assert (Htk : taken s1 = taken s) by (unfold QueueConcInv.taken, s1; proj; rewrite Hpc; cbn; lia).
        assert (Hw : rel s <= deq s < rel s + cap s) by lia.
        destruct (C7 _ Hw) as [Hlt _]. destruct (Hlt E3) as [[_ [A _]]|Ebad]; [|lia].
        destruct (A (Nat.le_refl _)) as (v & Hv & Hcell).
        assert (Eenq : enq s1 = enq s) by reflexivity. assert (Edeq : deq s1 = S (deq s)) by reflexivity.
        assert (Elg : log s1 = log s) by reflexivity. assert (Ecap : cap s1 = cap s) by reflexivity.
        assert (Epp : popped s1 = popped s) by reflexivity.
        assert (Hsl : forall x, slot_at s1 x = slot_at s x) by reflexivity.
        assert (Ecpc : cpc (con s1) = 3) by reflexivity. assert (Ecd : cdeq (con s1) = deq s) by reflexivity.
        assert (Ecs : cst (con s1) = cst (con s)) by reflexivity.
        constructor; rewrite ?Hrel, ?Htk, ?Eenq, ?Edeq, ?Elg, ?Ecap, ?Epp.
        * exact C1.
        * exact C2.
        * exact C3.
        * exact C4.
        * lia.
        * exact C6.
        * intros m Hm. destruct (C7 m Hm) as [Hlt' Hge'].
          unfold QueueConcInv.slot_ok, QueueConcInv.published_ok. rewrite ?Eenq, ?Edeq, ?Elg, Hsl.
          split; [|exact Hge']. intros Hm1. destruct (Hlt' Hm1) as [[E [A' B']]|E]; [left|right; exact E].
          split; [exact E|]. split; [intros Hd; apply A'; lia|].
          intros Hd. assert (m = deq s) by lia. subst m. rewrite ?Ecpc.
          split; [intros _; exists v; split; assumption|split; intros Hc; discriminate].
        * intros j q Hj. change (prods s1) with (prods s) in Hj.
          eapply (prod_ok_frame s); [exact (C8 j q Hj)|rewrite Eenq; apply Nat.le_refl|rewrite Elg; auto|intros x; rewrite Hsl; apply Nat.le_refl|].
          intros Fq. destruct (C8 j q Hj) as (_ & _ & _ & _ & Q5 & _). destruct (Q5 Fq) as (A' & B' & _ & F' & _).
          rewrite Hrel, Edeq, Hsl. split; [exact (proj1 A')|]. split; [|reflexivity].
          destruct (Nat.eq_dec (ppos q) (deq s)) as [Eq|]; [rewrite Eq in F'; lia|lia].
        * exact C9.
        * unfold QueueConcInv.con_ok. rewrite ?Eenq, ?Edeq, Hsl. rewrite ?Ecpc, ?Ecd, ?Ecs.
          split; [lia|]. split; [intros Hc; lia|]. split; [intros Hc; discriminate|].
          intros _. split; [reflexivity|]. split; [lia|]. exact E2.
        * exact C11.
    - (* take the message out of the cell *)
      destruct (K4 ltac:(lia)) as (D1 & D2 & D3).
      assert (Hrel : rel s = cdeq (con s)) by (unfold QueueConcInv.rel; rewrite Hpc; cbn; lia).
      assert (Hw : rel s <= cdeq (con s) < rel s + cap s) by lia.
      destruct (C7 _ Hw) as [Hlt _]. destruct (Hlt ltac:(lia)) as [[_ [_ B]]|Ebad]; [|lia].
      destruct (B ltac:(lia)) as (B3 & _). destruct (B3 Hpc) as (v & Hv & Hcell).
      destruct (slot_at s (cdeq (con s))) as [st ce] eqn:Eslot. cbn [snd fst] in Hcell, D3. subst ce.
      injection Hstep as <-.
      match goal with |- CInv ?x => set (s1 := x) end.
      assert (Hat : forall m, slot_at s1 m = if Nat.eqb (m mod cap s) (cdeq (con s) mod cap s) then (st, CNone) else slot_at s m).
      { intros m. unfold s1. change (slot_at (set_con ?a _) m) with (slot_at a m). apply (slot_at_write s); assumption. }
      assert (Hfst : forall x, fst (slot_at s1 x) = fst (slot_at s x)).
      { intros x. rewrite Hat. destruct (Nat.eqb_spec (x mod cap s) (cdeq (con s) mod cap s)) as [E|_]; [|reflexivity].
        cbn [fst]. unfold slot_at in Eslot |- *. rewrite E, Eslot. reflexivity. }
      assert (Hother : forall m, rel s <= m < rel s + cap s -> m <> cdeq (con s) -> slot_at s1 m = slot_at s m).
      { intros m Hm Hne. rewrite Hat, (window_eqb _ (rel s)) by assumption.
        destruct (Nat.eqb_spec m (cdeq (con s))); [congruence|reflexivity]. }
      assert (Hrel1 : rel s1 = rel s) by (unfold QueueConcInv.rel, s1; proj; rewrite Hpc; cbn; lia).
      assert (Htk1 : taken s1 = S (taken s)) by (unfold QueueConcInv.taken, s1; proj; rewrite Hpc; cbn; lia).
      assert (Htk : taken s = cdeq (con s)) by (unfold QueueConcInv.taken; rewrite Hpc; cbn; lia).
      assert (Eenq : enq s1 = enq s) by reflexivity. assert (Edeq : deq s1 = deq s) by reflexivity.
      assert (Elg : log s1 = log s) by reflexivity. assert (Ecap : cap s1 = cap s) by reflexivity.
      assert (Ecpc : cpc (con s1) = 4) by reflexivity. assert (Ecd : cdeq (con s1) = cdeq (con s)) by reflexivity.
      assert (Ecs : cst (con s1) = cst (con s)) by reflexivity.
      constructor; rewrite ?Hrel1, ?Htk1, ?Eenq, ?Edeq, ?Elg, ?Ecap.
      + exact C1.
      + unfold s1, set_slot. proj. rewrite lupd_length. exact C2.
      + exact C3.
      + exact C4.
      + exact C5.
      + exact C6.
      + intros m Hm. destruct (C7 m Hm) as [Hlt' Hge'].
        unfold QueueConcInv.slot_ok, QueueConcInv.published_ok. rewrite ?Eenq, ?Edeq, ?Elg.
        destruct (Nat.eq_dec m (cdeq (con s))) as [->|Hne].
        * split; [intros _; left|intros Hc; lia]. rewrite Hfst, Eslot. cbn [fst]. split; [exact D3|].
          split; [intros Hc; lia|]. intros _. rewrite ?Ecpc.
          split; [intros Hc; discriminate|]. split; [|intros Hc; discriminate].
          intros _. rewrite Hat, Nat.eqb_refl. reflexivity.
        * rewrite (Hother m Hm Hne). split; [|exact Hge']. intros Hm1.
          destruct (Hlt' Hm1) as [[E [A' B']]|E]; [left|right; exact E]. split; [exact E|]. split; [exact A'|].
          intros Hd. exfalso. lia.
      + intros j q Hj. change (prods s1) with (prods s) in Hj.
        eapply (prod_ok_frame s); [exact (C8 j q Hj)|rewrite Eenq; apply Nat.le_refl|rewrite Elg; auto|intros x; rewrite Hfst; apply Nat.le_refl|].
        intros Fq. destruct (C8 j q Hj) as (_ & _ & _ & _ & Q5 & _). destruct (Q5 Fq) as (A' & B' & _ & F' & _).
        rewrite Hrel1, Edeq. split; [exact (proj1 A')|]. split; [exact B'|]. apply Hother; lia.
      + exact C9.
      + unfold QueueConcInv.con_ok. rewrite ?Eenq, ?Edeq. rewrite ?Ecpc, ?Ecd, ?Ecs.
        split; [lia|]. split; [intros Hc; lia|]. split; [intros Hc; discriminate|].
        intros _. split; [exact D1|]. split; [exact D2|]. rewrite Hfst, Eslot. exact D3.
      + change (popped s1) with (popped s ++ [v]). rewrite C11, Htk. symmetry. apply firstn_snoc_nth. exact Hv.
    - (* drop of the borrow, part 1: the cell is vacated *)
      destruct (K4 ltac:(lia)) as (D1 & D2 & D3).
      assert (Hrel : rel s = cdeq (con s)) by (unfold QueueConcInv.rel; rewrite Hpc; cbn; lia).
      assert (Hw : rel s <= cdeq (con s) < rel s + cap s) by lia.
      destruct (slot_at s (cdeq (con s))) as [st ce] eqn:Eslot. cbn [snd fst] in D3.
      injection Hstep as <-.
      match goal with |- CInv ?x => set (s1 := x) end.
      assert (Hat : forall m, slot_at s1 m = if Nat.eqb (m mod cap s) (cdeq (con s) mod cap s) then (st, CVac) else slot_at s m).
      { intros m. unfold s1. change (slot_at (set_con ?a _) m) with (slot_at a m). apply (slot_at_write s); assumption. }
      assert (Hfst : forall x, fst (slot_at s1 x) = fst (slot_at s x)).
      { intros x. rewrite Hat. destruct (Nat.eqb_spec (x mod cap s) (cdeq (con s) mod cap s)) as [E|_]; [|reflexivity].
        cbn [fst]. unfold slot_at in Eslot |- *. rewrite E, Eslot. reflexivity. }
      assert (Hother : forall m, rel s <= m < rel s + cap s -> m <> cdeq (con s) -> slot_at s1 m = slot_at s m).
      { intros m Hm Hne. rewrite Hat, (window_eqb _ (rel s)) by assumption.
        destruct (Nat.eqb_spec m (cdeq (con s))); [congruence|reflexivity]. }
      assert (Hrel1 : rel s1 = rel s) by (unfold QueueConcInv.rel, s1; proj; rewrite Hpc; cbn; lia).
      assert (Htk1 : taken s1 = taken s) by (unfold QueueConcInv.taken, s1; proj; rewrite Hpc; cbn; lia).
      assert (Eenq : enq s1 = enq s) by reflexivity. assert (Edeq : deq s1 = deq s) by reflexivity.
      assert (Elg : log s1 = log s) by reflexivity. assert (Ecap : cap s1 = cap s) by reflexivity.
      assert (Ecpc : cpc (con s1) = 5) by reflexivity. assert (Ecd : cdeq (con s1) = cdeq (con s)) by reflexivity.
      assert (Ecs : cst (con s1) = cst (con s)) by reflexivity.
      assert (Epp : popped s1 = popped s) by reflexivity.
      constructor; rewrite ?Hrel1, ?Htk1, ?Eenq, ?Edeq, ?Elg, ?Ecap, ?Epp.
      + exact C1.
      + unfold s1, set_slot. proj. rewrite lupd_length. exact C2.
      + exact C3.
      + exact C4.
      + exact C5.
      + exact C6.
      + intros m Hm. destruct (C7 m Hm) as [Hlt' Hge'].
        unfold QueueConcInv.slot_ok, QueueConcInv.published_ok. rewrite ?Eenq, ?Edeq, ?Elg.
        destruct (Nat.eq_dec m (cdeq (con s))) as [->|Hne].
        * split; [intros _; left|intros Hc; lia]. rewrite Hfst, Eslot. cbn [fst]. split; [exact D3|].
          split; [intros Hc; lia|]. intros _. rewrite ?Ecpc.
          split; [intros Hc; discriminate|]. split; [intros Hc; discriminate|].
          intros _. rewrite Hat, Nat.eqb_refl. reflexivity.
        * rewrite (Hother m Hm Hne). split; [|exact Hge']. intros Hm1.
          destruct (Hlt' Hm1) as [[E [A' B']]|E]; [left|right; exact E]. split; [exact E|]. split; [exact A'|].
          intros Hd. exfalso. lia.
      + intros j q Hj. change (prods s1) with (prods s) in Hj.
        eapply (prod_ok_frame s); [exact (C8 j q Hj)|rewrite Eenq; apply Nat.le_refl|rewrite Elg; auto|intros x; rewrite Hfst; apply Nat.le_refl|].
        intros Fq. destruct (C8 j q Hj) as (_ & _ & _ & _ & Q5 & _). destruct (Q5 Fq) as (A' & B' & _ & F' & _).
        rewrite Hrel1, Edeq. split; [exact (proj1 A')|]. split; [exact B'|]. apply Hother; lia.
      + exact C9.
      + unfold QueueConcInv.con_ok. rewrite ?Eenq, ?Edeq. rewrite ?Ecpc, ?Ecd, ?Ecs.
        split; [lia|]. split; [intros Hc; lia|]. split; [intros Hc; discriminate|].
        intros _. split; [exact D1|]. split; [exact D2|]. rewrite Hfst, Eslot. exact D3.
      + exact C11.
    - (* drop of the borrow, part 2: Release store of the stamp of the next lap *)
      destruct (K4 ltac:(lia)) as (D1 & D2 & D3).
      assert (Hrel : rel s = cdeq (con s)) by (unfold QueueConcInv.rel; rewrite Hpc; cbn; lia).
      assert (Hw : rel s <= cdeq (con s) < rel s + cap s) by lia.
      destruct (C7 _ Hw) as [Hlt _]. destruct (Hlt ltac:(lia)) as [[_ [_ B]]|Ebad]; [|lia].
      destruct (B ltac:(lia)) as (_ & _ & B5). specialize (B5 Hpc).
      destruct (slot_at s (cdeq (con s))) as [st ce] eqn:Eslot. cbn [snd fst] in D3, B5. subst ce.
      injection Hstep as <-.
      match goal with |- CInv ?x => set (s1 := x) end.
      assert (Est : cst (con s) + 2 * cap s - 1 = 2 * (cdeq (con s) + cap s)) by lia.
      assert (Hat : forall m, slot_at s1 m = if Nat.eqb (m mod cap s) (cdeq (con s) mod cap s)
                                             then (2 * (cdeq (con s) + cap s), CVac) else slot_at s m).
      { intros m. unfold s1. change (slot_at (set_con ?a _) m) with (slot_at a m). rewrite <- Est. apply (slot_at_write s); assumption. }
      assert (Hmono : forall x, fst (slot_at s x) <= fst (slot_at s1 x)).
      { intros x. rewrite Hat. destruct (Nat.eqb_spec (x mod cap s) (cdeq (con s) mod cap s)) as [E|_]; [|apply Nat.le_refl].
        cbn [fst]. unfold slot_at in Eslot |- *. rewrite E, Eslot. cbn [fst]. lia. }
      assert (Hother : forall m, rel s <= m < rel s + cap s -> m <> cdeq (con s) -> slot_at s1 m = slot_at s m).
      { intros m Hm Hne. rewrite Hat, (window_eqb _ (rel s)) by assumption.
        destruct (Nat.eqb_spec m (cdeq (con s))); [congruence|reflexivity]. }
      assert (Hrel1 : rel s1 = S (rel s)) by (unfold QueueConcInv.rel, s1; proj; rewrite Hpc; cbn; lia).
      assert (Htk1 : taken s1 = taken s) by (unfold QueueConcInv.taken, s1; proj; rewrite Hpc; cbn; lia).
      assert (Eenq : enq s1 = enq s) by reflexivity. assert (Edeq : deq s1 = deq s) by reflexivity.
      assert (Elg : log s1 = log s) by reflexivity. assert (Ecap : cap s1 = cap s) by reflexivity.
      assert (Ecpc : cpc (con s1) = 0) by reflexivity. assert (Ecd : cdeq (con s1) = cdeq (con s)) by reflexivity.
      assert (Ecs : cst (con s1) = cst (con s)) by reflexivity.
      assert (Epp : popped s1 = popped s) by reflexivity.
      constructor; rewrite ?Hrel1, ?Htk1, ?Eenq, ?Edeq, ?Elg, ?Ecap, ?Epp.
      + exact C1.
      + unfold s1, set_slot. proj. rewrite lupd_length. exact C2.
      + exact C3.
      + exact C4.
      + exact C5.
      + lia.
      + intros m Hm. unfold QueueConcInv.slot_ok, QueueConcInv.published_ok. rewrite ?Eenq, ?Edeq, ?Elg.
        destruct (Nat.eq_dec m (rel s + cap s)) as [->|Hne].
        * (* the slot just handed back now stands for the ticket one lap later *)
          assert (Hs : slot_at s1 (rel s + cap s) = (2 * (rel s + cap s), CVac)).
          { rewrite Hat, Hrel, mod_lap, Nat.eqb_refl by exact C1. reflexivity. }
          rewrite Hs. cbn [fst snd]. split; [intros Hc; lia|intros _; reflexivity].
        * assert (Hm' : rel s <= m < rel s + cap s) by lia. destruct (C7 m Hm') as [Hlt' Hge'].
          rewrite (Hother m Hm') by lia. split; [|exact Hge']. intros Hm1.
          destruct (Hlt' Hm1) as [[E [A' B']]|E]; [left|right; exact E]. split; [exact E|]. split; [exact A'|].
          intros Hd. exfalso. lia.
      + intros j q Hj. change (prods s1) with (prods s) in Hj.
        eapply (prod_ok_frame s); [exact (C8 j q Hj)|rewrite Eenq; apply Nat.le_refl|rewrite Elg; auto|exact Hmono|].
        intros Fq. destruct (C8 j q Hj) as (_ & _ & _ & _ & Q5 & _). destruct (Q5 Fq) as (A' & B' & _ & F' & _).
        rewrite Hrel1, Edeq. split; [lia|]. split; [exact B'|]. apply Hother; lia.
      + exact C9.
      + unfold QueueConcInv.con_ok. rewrite ?Eenq, ?Edeq. rewrite ?Ecpc, ?Ecd, ?Ecs.
        split; [lia|]. split; [intros Hc; lia|]. split; [intros Hc; discriminate|intros Hc; lia].
      + exact C11.
  Qed.
End Steps.
