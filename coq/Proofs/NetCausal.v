(* Processing order = enqueue order, for any execution: the messages a model has started
   processing, in the order it started them, are the first `deqs` messages of (its initial
   mailbox content followed by everything enqueued into it, in enqueue order).  Hence if M1 is
   enqueued into B's mailbox before M3 - which is what "the sending of M1 happens before the
   sending of M3" means in an interleaving semantics where a send completes by its enqueue - B
   processes M1 before M3, whatever the schedule, the mailbox capacities and the suspensions. *)
Require Import NX.Base.Prelude NX.Base.ListX NX.Model.PQ NX.Model.Sink NX.Model.Sim.
Require Import NX.Proofs.SimBasic NX.Proofs.SimSched NX.Proofs.NetProofs NX.Proofs.NetTrace.

Fixpoint procs (b : bench) (s : state) (ls : list label) (m : nat) : list msg :=
  match ls with
  | [] => []
  | l :: r =>
      match net_step b s l with
      | Some s1 =>
          (match step_event b s l m with
           | Some MDeq => match nth_error (boxes s) m with Some (g :: _) => [g] | _ => [] end
           | _ => []
           end) ++ procs b s1 r m
      | None => []
      end
  end.

Theorem procs_prefix b : forall ls s s' m q,
  net_exec b s ls = Some s' -> nth_error (boxes s) m = Some q ->
  procs b s ls m = firstn (deqs b s ls m) (q ++ enqs b s ls m).
Proof.
  induction ls as [|l r IH]; intros s s' m q He Hq; [reflexivity|].
  cbn [net_exec procs deqs enqs] in *. destruct (net_step b s l) as [s1|] eqn:Es; [|discriminate].
  pose proof (step_event_spec b s l s1 m q Es Hq) as Hsp.
  destruct (step_event b s l m) as [[g|]|].
  - rewrite (IH s1 s' m (q ++ [g]) He Hsp). cbn [app Nat.add]. rewrite <- app_assoc. reflexivity.
  - destruct Hsp as (g & rest & -> & Hrest). rewrite Hq.
    rewrite (IH s1 s' m rest He Hrest). reflexivity.
  - rewrite (IH s1 s' m q He Hsp). reflexivity.
Qed.

(* the k-th message of (initial content ++ enqueued) is the k-th one processed *)
Corollary processed_in_enqueue_order b ls s s' m q k g :
  net_exec b s ls = Some s' -> nth_error (boxes s) m = Some q ->
  nth_error (procs b s ls m) k = Some g -> nth_error (q ++ enqs b s ls m) k = Some g.
Proof.
  intros He Hq Hk. rewrite (procs_prefix b ls s s' m q He Hq) in Hk.
  revert Hk. generalize (q ++ enqs b s ls m) as l. generalize (deqs b s ls m) as n. clear.
  intros n; revert k; induction n as [|n IH]; intros k l Hk; [destruct k; discriminate|].
  destruct l as [|x l]; [destruct k; discriminate|]. destruct k as [|k]; [exact Hk|]. cbn in *. apply IH. exact Hk.
Qed.
