(* Meaning of the specification Model/IPQSpec.v: which entry a pull returns and which entry
   the key of the n-th insertion designates. *)
Require Import NX.Base.Prelude NX.Base.ListX NX.Model.PQ NX.Model.IPQ NX.Model.IPQSpec.
Require Import NX.Proofs.PQProofs NX.Proofs.IPQRefine.

Section SpecMeaning.
  Variable V : Type.

  Definition ins_of (o : ipq_op V) : list (key * V) :=
    match o with IInsert k v => [(k, v)] | _ => [] end.

  Fixpoint inserts (ops : list (ipq_op V)) : list (key * V) :=
    match ops with [] => [] | o :: r => ins_of o ++ inserts r end.

  Fixpoint a_exec (a : pq V) (ops : list (ipq_op V)) : pq V :=
    match ops with [] => a | o :: r => a_exec (fst (a_step a o)) r end.

  (* every queued entry is the one created by the insertion whose number is its epoch *)
  Record A (a : pq V) (ins : list (key * V)) : Prop := {
    A_next : next_epoch a = N.of_nat (length ins);
    A_origin : forall x, In x (items a) -> nth_error ins (N.to_nat (iepoch x)) = Some (PQ.ikey x, ival x);
    A_sorted : epochs_sorted V (items a);
    A_bound : forall x, In x (items a) -> (iepoch x < next_epoch a)%N
  }.

  Lemma A_empty : A pq_empty [].
  Proof.
    constructor; cbn; [reflexivity|intros x []| |intros x []].
    intros [|i] j u w _ Hu; discriminate.
  Qed.

  Lemma A_remove a ins e : A a ins -> (exists x, In x (items a) /\ iepoch x = e) ->
    A {| items := remove_epoch e (items a); next_epoch := next_epoch a |} ins.
  Proof.
    intros [An Ao As Ab] (x & Hx & <-). constructor; cbn [items next_epoch].
    - exact An.
    - intros y Hy. apply Ao. eapply in_remove_epoch; eauto.
    - destruct (In_nth_error _ _ Hx) as (i & Hi).
      rewrite (remove_epoch_nth V _ i x As Hi). apply sorted_remove_nth. exact As.
    - intros y Hy. apply Ab. eapply in_remove_epoch; eauto.
  Qed.

  Lemma A_step a ins o : A a ins -> A (fst (a_step a o)) (ins ++ ins_of o).
  Proof.
    intros HA. destruct o as [k v| | | |n|]; cbn [a_step ins_of fst]; rewrite ?app_nil_r; try exact HA.
    - destruct HA as [An Ao As Ab].
      assert (HR : R V (pq_insert a k v) (map (proj V) (items a) ++ [(k, v)])).
      { apply R_insert. constructor; [reflexivity|exact As|exact Ab]. }
      constructor.
      + cbn [pq_insert next_epoch]. rewrite An, app_length. cbn [length]. lia.
      + intros x. cbn [pq_insert items]. rewrite in_app_iff. cbn [In]. intros [Hx|[<-|[]]].
        * pose proof (Ab x Hx). rewrite nth_error_app1; [apply Ao; exact Hx|]. lia.
        * cbn [iepoch PQ.ikey ival]. rewrite An, Nnat.Nat2N.id, nth_error_app2, Nat.sub_diag by lia. reflexivity.
      + exact (R_sorted _ _ _ HR).
      + exact (R_bound _ _ _ HR).
    - unfold pq_pull. destruct (pq_peek_item a) as [m|] eqn:Em; cbn [fst]; [|exact HA].
      apply A_remove; [exact HA|]. exists m. split; [|reflexivity].
      apply peek_item_spec in Em. tauto.
    - unfold a_extract. destruct (find _ (items a)) as [x|] eqn:Ef; cbn [fst]; [|exact HA].
      apply A_remove; [exact HA|]. apply find_some in Ef. exists x. tauto.
  Qed.

  Lemma A_exec ops : forall a ins, A a ins -> A (a_exec a ops) (ins ++ inserts ops).
  Proof.
    induction ops as [|o ops IH]; intros a ins HA; cbn [a_exec inserts]; [rewrite app_nil_r; exact HA|].
    rewrite app_assoc. apply IH. apply A_step. exact HA.
  Qed.

  Theorem A_reachable ops : A (a_exec pq_empty ops) (inserts ops).
  Proof. apply (A_exec ops pq_empty []). exact A_empty. Qed.

  (* The key of the n-th insertion: extraction returns nothing, or exactly the pair that the n-th
     insertion put in - whatever happened in between (including re-use of its storage slot) - and
     removes that entry and no other. *)
  Theorem extract_designates (a : pq V) ins n (r : option (key * V)) (a' : pq V) :
    A a ins -> a_extract a n = (r, a') ->
    (r = None /\ a' = a /\ forall x, In x (items a) -> iepoch x <> N.of_nat n) \/
    (exists k v, r = Some (k, v) /\ nth_error ins n = Some (k, v) /\
                 (forall y, In y (items a') <-> In y (items a) /\ iepoch y <> N.of_nat n) /\
                 next_epoch a' = next_epoch a).
  Proof.
    intros HA. unfold a_extract. destruct (find _ (items a)) as [x|] eqn:Ef; intros H; injection H as <- <-.
    - right. apply find_some in Ef. destruct Ef as [Hx Ee]. apply N.eqb_eq in Ee.
      exists (PQ.ikey x), (ival x). split; [reflexivity|]. split.
      + rewrite <- (Nnat.Nat2N.id n), <- Ee. apply (A_origin _ _ HA). exact Hx.
      + split; [|reflexivity]. intros y. cbn [items].
        rewrite (in_remove_epoch_iff V _ x y (A_sorted _ _ HA) Hx). split.
        * intros [Hy Hne]. split; [exact Hy|]. intros Ey. apply Hne.
          apply (sorted_epoch_inj V (items a)); [exact (A_sorted _ _ HA)|exact Hy|exact Hx|congruence].
        * intros [Hy Hne]. split; [exact Hy|]. intros ->. congruence.
    - left. split; [reflexivity|]. split; [reflexivity|].
      intros x Hx E. pose proof (find_none _ _ Ef x Hx) as H2. cbv beta in H2. apply N.eqb_neq in H2. auto.
  Qed.

  (* pull returns an entry with the least key and, among those, the one inserted first (its
     epoch is its insertion number) *)
  Theorem pull_least_first (a : pq V) k v (a' : pq V) :
    pq_pull a = (Some (k, v), a') ->
    exists m, In m (items a) /\ PQ.ikey m = k /\ ival m = v /\
      (forall y, In y (items a) -> key_le k (PQ.ikey y)) /\
      (forall y, In y (items a) -> PQ.ikey y = k -> (iepoch m <= iepoch y)%N) /\
      items a' = remove_epoch (iepoch m) (items a).
  Proof.
    unfold pq_pull. destruct (pq_peek_item a) as [m|] eqn:Em; [|discriminate].
    intros H; injection H as <- <- <-. exists m. pose proof (peek_item_spec V a m Em) as [Hin Hle].
    repeat split; auto.
    intros y Hy Ek. unfold pq_peek_item in Em. destruct (items a) as [|c l] eqn:El; [discriminate|].
    injection Em as <-. pose proof (min_item_min V c l y Hy) as Hn.
    destruct (N.le_gt_cases (iepoch (min_item c l)) (iepoch y)) as [L|L]; [exact L|].
    exfalso. apply Hn. right. split; [exact Ek|lia].
  Qed.

  Lemma a_run_snoc ops : forall (a : pq V) o,
    a_run a (ops ++ [o]) = a_run a ops ++ [snd (a_step (a_exec a ops) o)].
  Proof.
    induction ops as [|o' ops IH]; intros a o; cbn [app a_run a_exec].
    - destruct (a_step a o); reflexivity.
    - destruct (a_step a o') as [a1 x1] eqn:E. cbn [fst]. rewrite IH. reflexivity.
  Qed.

  Theorem extract_designates_reachable ops n (r : option (key * V)) (a' : pq V) :
    a_extract (a_exec pq_empty ops) n = (r, a') ->
    (r = None /\ a' = a_exec pq_empty ops /\
     forall x, In x (items (a_exec pq_empty ops)) -> iepoch x <> N.of_nat n) \/
    (exists k v, r = Some (k, v) /\ nth_error (inserts ops) n = Some (k, v) /\
                 (forall y, In y (items a') <-> In y (items (a_exec pq_empty ops)) /\ iepoch y <> N.of_nat n) /\
                 next_epoch a' = next_epoch (a_exec pq_empty ops)).
  Proof. apply extract_designates. apply A_reachable. Qed.
End SpecMeaning.
