(* Every step of the channel protocol (program of the current tree) keeps the invariant. *)
Require Import NX.Base.Prelude NX.Base.ListX NX.Model.Chan NX.Proofs.ChanInv.

Ltac ssplit y x := destruct (Nat.eqb_spec y x) as [->|?].

Lemma notes_upd s s' x v' : csnd s' = lupd (csnd s) x v' -> x < length (csnd s) -> rpend s' = rpend s ->
  notes s' + b2n (sh (S_ s x)) = notes s + b2n (sh v').
Proof.
  intros E H R. unfold notes. rewrite E, R. pose proof (nsh_lupd (csnd s) x v' H) as L. fold (S_ s x) in L. lia.
Qed.

(* csender x moves; the receiver's control state is untouched; the queue can only have been pushed to *)
Lemma sender_upd s s' x v' :
  CInv s -> x < length (csnd s) -> csnd s' = lupd (csnd s) x v' ->
  ccap s' = ccap s -> rpc_ s' = rpc_ s -> rreg s' = rreg s -> rwk s' = rwk s -> rpend s' = rpend s ->
  ((cocc s' = cocc s /\ cavail s' = cavail s) \/
   (cocc s < ccap s /\ cocc s' = S (cocc s) /\ cavail s' = S (cavail s) /\ will_notify_recv (spc_ v') = true)) ->
  post_ok (spc_ v') ->
  (sh v' = true -> sin v' = false /\ (awake_pc (spc_ v') = true \/ (spc_ v' = SSleep /\ swk v' = true))) ->
  (sin v' = true -> in_pc (spc_ v') = true /\ swk v' = false) ->
  (spc_ v' = SSleep -> sin v' = false -> swk v' = true) ->
  (spc_ v' = SCheck2 -> sin v' = false -> swk v' = true) ->
  (spc_ v' = SCheck1 \/ spc_ v' = SIns -> sin v' = false /\ swk v' = false) ->
  (b2n (sh (S_ s x)) <= b2n (sh v') + (cocc s' - cocc s) \/ cocc s' = ccap s \/
   ((forall z, z <> x -> sin (S_ s z) = false) /\ sin v' = false)) ->
  (spc_ v' = SSleep -> sin v' = true -> spc_ (S_ s x) = SSleep /\ sin (S_ s x) = true \/ cocc s' = ccap s) ->
  (will_notify_recv (spc_ (S_ s x)) = true -> will_notify_recv (spc_ v') = true \/ rreg s = false \/ rpc_ s <> RSleep) ->
  CInv s'.
Proof.
  intros I Hx Es Ec Epc Erg Ewk Epd Hq Hpost Hsh Hin Hslp Hc2 Haw Hnote Hnew Hwn.
  assert (ES : forall y, S_ s' y = if Nat.eqb y x then v' else S_ s y) by (intros y; eapply S_upd; eauto).
  pose proof (notes_upd s s' x v' Es Hx Epd) as HN.
  pose proof (c_cap s I) as Hcap. pose proof (c_av s I) as Hav.
  constructor.
  - rewrite Ec. destruct Hq as [[-> _]|(A & -> & _)]; lia.
  - destruct Hq as [[-> ->]|(A & -> & -> & _)]; lia.
  - rewrite Epc. intros H. pose proof (c_hold s I H). destruct Hq as [[-> ->]|(A & -> & -> & _)]; lia.
  - intros y; rewrite ES; ssplit y x; auto. apply I.
  - rewrite Epc. apply I.
  - intros y; rewrite ES; ssplit y x; auto. apply I.
  - intros y; rewrite ES; ssplit y x; auto. apply I.
  - intros y; rewrite ES; ssplit y x; auto. apply I.
  - intros y; rewrite ES; ssplit y x; auto. apply I.
  - intros y; rewrite ES; ssplit y x; auto. apply I.
  - intros y; rewrite ES, Ec. ssplit y x.
    + intros A B. destruct (Hnew A B) as [[A0 B0]|Z]; [|lia].
      pose proof (c_main s I x A0 B0) as M.
      destruct Hnote as [Hn|[Z|[_ Z]]]; [|lia|congruence]. destruct Hq as [[Eo _]|(_ & Eo & _)]; rewrite Eo in *; lia.
    + intros A B. pose proof (c_main s I y A B) as M.
      destruct Hnote as [Hn|[Z|[Z _]]]; [|lia|rewrite Z in B by auto; discriminate].
      destruct Hq as [[Eo _]|(_ & Eo & _)]; rewrite Eo in *; lia.
  - rewrite Epd, Epc. apply I.
  - rewrite Epc, Erg. intros A B. destruct Hq as [[_ Ea]|(_ & _ & _ & Wn)].
    + rewrite Ea. destruct (c_r1 s I A B) as [Z|[y Hy]]; [left; exact Z|].
      ssplit y x.
      * destruct (Hwn Hy) as [W|[W|W]]; [right; exists x; rewrite ES, Nat.eqb_refl; exact W|congruence|contradiction].
      * right. exists y. rewrite ES. destruct (Nat.eqb_spec y x); [contradiction|exact Hy].
    + right. exists x. rewrite ES, Nat.eqb_refl. exact Wn.
  - rewrite Epc, Erg, Ewk. apply I.
  - rewrite Epc, Erg, Ewk. apply I.
Qed.


(* the receiver moves; the senders are untouched *)
Lemma recv_upd s s' :
  CInv s -> csnd s' = csnd s -> ccap s' = ccap s ->
  cocc s' <= ccap s -> cavail s' <= cocc s' -> (holds_msg (rpc_ s') = true -> S (cavail s') <= cocc s') ->
  got_ok (rpc_ s') ->
  (forall z, spc_ (S_ s z) = SSleep -> sin (S_ s z) = true -> ccap s - cocc s' <= b2n (rpend s') + nsh (csnd s)) ->
  (rpend s' = true <-> rpc_ s' = RGot [RNotifyOne]) ->
  (rpc_ s' = RSleep -> rreg s' = true -> cavail s' = 0 \/ exists x, will_notify_recv (spc_ (S_ s x)) = true) ->
  (rpc_ s' = RSleep -> rreg s' = false -> rwk s' = true) ->
  (rpc_ s' = RCheck2 -> rreg s' = false -> rwk s' = true) ->
  CInv s'.
Proof.
  intros I Es Ec H1 H2 H3 H4 H5 H6 H7 H8 H9.
  assert (ES : forall y, S_ s' y = S_ s y) by (intros y; unfold S_; rewrite Es; reflexivity).
  constructor; auto.
  - rewrite Ec; exact H1.
  - intros x; rewrite ES; apply I.
  - intros x; rewrite ES; apply I.
  - intros x; rewrite ES; apply I.
  - intros x; rewrite ES; apply I.
  - intros x; rewrite ES; apply I.
  - intros x; rewrite ES; apply I.
  - intros x; rewrite ES, Ec. unfold notes. rewrite Es. apply H5.
  - intros A B. destruct (H7 A B) as [Z|[x Hx]]; [left; exact Z|right; exists x; rewrite ES; exact Hx].
Qed.

(* Event::cnotify_one picks csender y (in the wait set); the caller is the receiver (its pending notification
   is discharged) or csender x at SCancel (which hands over the notification it holds) *)
Lemma notify_upd s s' y (giver : option (nat * csender)) :
  CInv s -> y < length (csnd s) -> sin (S_ s y) = true ->
  ccap s' = ccap s -> cocc s' = cocc s -> cavail s' = cavail s -> rreg s' = rreg s -> rwk s' = rwk s ->
  match giver with
  | None =>
      rpend s = true /\ rpend s' = false /\ rpc_ s' = RGot [] /\
      csnd s' = lupd (csnd s) y (cmk_s (spc_ (S_ s y)) false true true)
  | Some (x, x') =>
      x <> y /\ x < length (csnd s) /\ spc_ (S_ s x) = SCancel /\
      sh x' = false /\ sin x' = false /\ spc_ x' = SPost [SNotifyRecv; SCountInc] /\
      rpend s' = rpend s /\ rpc_ s' = rpc_ s /\
      csnd s' = lupd (lupd (csnd s) y (cmk_s (spc_ (S_ s y)) false true true)) x x'
  end ->
  CInv s'.
Proof.
  intros I Hy Hin Ec Eo Ea Erg Ewk Hg.
  destruct (c_in s I y Hin) as [Py Wy].
  assert (Shy : sh (S_ s y) = false).
  { destruct (sh (S_ s y)) eqn:E; auto. destruct (c_sh s I y E) as [F _]. congruence. }
  set (y' := cmk_s (spc_ (S_ s y)) false true true) in *.
  assert (Ly : sh y' = true -> sin y' = false /\ (awake_pc (spc_ y') = true \/ (spc_ y' = SSleep /\ swk y' = true))).
  { intros _. split; [reflexivity|]. unfold y'; cbn. destruct (spc_ (S_ s y)); try discriminate; auto. }
  destruct giver as [[x x']|].
  - destruct Hg as (Hxy & Hx & Pcx & Shx' & Sinx' & Pcx' & Epd & Epc & Es).
    assert (ES : forall z, S_ s' z = if Nat.eqb z x then x' else if Nat.eqb z y then y' else S_ s z).
    { intros z. unfold S_. rewrite Es, !nth_lupd_s, lupd_length.
      destruct (Nat.ltb_spec x (length (csnd s))); [|lia]. destruct (Nat.ltb_spec y (length (csnd s))); [|lia].
      rewrite !andb_true_r. reflexivity. }
    assert (HN : notes s <= notes s').
    { unfold notes. rewrite Es, Epd.
      assert (Hx2 : x < length (lupd (csnd s) y y')) by (rewrite lupd_length; exact Hx).
      pose proof (nsh_lupd _ x x' Hx2) as L1. rewrite nth_lupd_s in L1.
      destruct (Nat.eqb_spec x y); [contradiction|]. cbn [andb] in L1. fold (S_ s x) in L1.
      pose proof (nsh_lupd (csnd s) y y' Hy) as L2. fold (S_ s y) in L2.
      rewrite Shx' in L1. rewrite Shy in L2. cbn in L1, L2. destruct (sh (S_ s x)); cbn in L1; lia. }
    constructor.
    + rewrite Ec, Eo. apply I.
    + rewrite Ea, Eo. apply I.
    + rewrite Epc, Ea, Eo. apply I.
    + intros z; rewrite ES; ssplit z x; [rewrite Pcx'; cbn; auto|]. ssplit z y; [unfold y'; cbn; apply I|apply I].
    + rewrite Epc. apply I.
    + intros z; rewrite ES; ssplit z x; [congruence|]. ssplit z y; [exact Ly|apply I].
    + intros z; rewrite ES; ssplit z x; [congruence|]. ssplit z y; [discriminate|apply I].
    + intros z; rewrite ES; ssplit z x; [rewrite Pcx'; discriminate|]. ssplit z y; [reflexivity|apply I].
    + intros z; rewrite ES; ssplit z x; [rewrite Pcx'; discriminate|]. ssplit z y; [reflexivity|apply I].
    + intros z; rewrite ES; ssplit z x; [rewrite Pcx'; intros [F|F]; discriminate F|].
      ssplit z y; [|apply I]. unfold y'; cbn. intros [F|F]; rewrite F in Py; discriminate.
    + intros z; rewrite ES, Ec, Eo; ssplit z x; [rewrite Pcx'; discriminate|]. ssplit z y; [discriminate|].
      intros A B. pose proof (c_main s I z A B). lia.
    + rewrite Epd, Epc. apply I.
    + rewrite Epc, Erg, Ea. intros A B. right. exists x. rewrite ES, Nat.eqb_refl, Pcx'. reflexivity.
    + rewrite Epc, Erg, Ewk. apply I.
    + rewrite Epc, Erg, Ewk. apply I.
  - destruct Hg as (Epd & Epd' & Epc & Es).
    assert (ES : forall z, S_ s' z = if Nat.eqb z y then y' else S_ s z) by (intros z; eapply S_upd; eauto).
    assert (HN : notes s' = notes s).
    { unfold notes. rewrite Es, Epd, Epd'. pose proof (nsh_lupd (csnd s) y y' Hy) as L2. fold (S_ s y) in L2.
      rewrite Shy in L2. cbn in L2 |- *. lia. }
    pose proof (proj1 (c_rp s I) Epd) as Rpc.
    constructor.
    + rewrite Ec, Eo. apply I.
    + rewrite Ea, Eo. apply I.
    + rewrite Epc. discriminate.
    + intros z; rewrite ES; ssplit z y; [unfold y'; cbn; apply I|apply I].
    + rewrite Epc. cbn. auto.
    + intros z; rewrite ES; ssplit z y; [exact Ly|apply I].
    + intros z; rewrite ES; ssplit z y; [discriminate|apply I].
    + intros z; rewrite ES; ssplit z y; [reflexivity|apply I].
    + intros z; rewrite ES; ssplit z y; [reflexivity|apply I].
    + intros z; rewrite ES; ssplit z y; [|apply I]. unfold y'; cbn. intros [F|F]; rewrite F in Py; discriminate.
    + intros z; rewrite ES, Ec, Eo, HN; ssplit z y; [discriminate|apply I].
    + rewrite Epd', Epc. split; discriminate.
    + rewrite Epc. discriminate.
    + rewrite Epc. discriminate.
    + rewrite Epc. discriminate.
Qed.
