(* The inductive invariant of the pool protocol for the barrier of the repaired tree, and the lemma
   for "benign" steps (a worker changes only itself, neither its bit nor its token, and neither enters
   nor leaves the states the cross-worker clauses talk about). *)
Require Import NX.Base.Prelude NX.Base.ListX NX.Model.Pool.

Definition parkish (pc : ppc) : bool :=
  match pc with
  | WPost [BPark] => true
  | WPost [BUnparkMain; BPark] => true
  | _ => false
  end.

Definition last_pc (pc : ppc) : bool :=
  match pc with
  | WChk => true
  | WPost [BSetAllInactive; BUnparkMain; BPark] => true
  | _ => false
  end.

Definition pc_ok (pc : ppc) : Prop :=
  match pc with
  | WPre ops => ops = [BUpdate] \/ ops = []
  | WPost ops => ops = [BPark] \/ ops = [] \/ ops = [BSetAllInactive; BUnparkMain; BPark]
                 \/ ops = [BUnparkMain; BPark] \/ ops = [BBeginSearch]
  | _ => True
  end.

Definition clean (w : pworker) : Prop := wlq w = 0 /\ wslot w = false /\ whand w = 0.

Definition local_ok (w : pworker) : Prop :=
  match wpc w with
  | WPre [BUpdate] => clean w
  | WPre _ | WTry | WChk | WPost _ => clean w /\ wcnt w = 0%Z
  | WSearch => clean w
  | WRun | WTask | WSched2 | WAct _ | WUnpark _ => whand w = 0
  | _ => True
  end.

Fixpoint sumc (l : list pworker) : Z :=
  match l with [] => 0%Z | w :: r => (wcnt w + sumc r)%Z end.

Definition main_quiet (m : mpc) : bool :=
  match m with MIdle | MAct _ | MRead => true | _ => false end.

Record Inv (s : pstate) : Prop := {
  i_len : 1 <= length (pws s);
  i_pc : forall j, pc_ok (wpc (W s j));
  i_loc : forall j, local_ok (W s j);
  i_bit : forall j, parkish (wpc (W s j)) = false -> wact (W s j) = true;
  i_tok : forall v, wtok (W s v) = true ->
          wact (W s v) = true /\ parkish (wpc (W s v)) = true /\
          (forall x, wpc (W s x) <> WUnpark v) /\ pmain s <> MUnpark v;
  i_unp : forall x v, wpc (W s x) = WUnpark v ->
          wact (W s v) = true /\ parkish (wpc (W s v)) = true /\ wtok (W s v) = false /\
          (forall y, wpc (W s y) = WUnpark v -> y = x) /\ pmain s <> MUnpark v;
  i_munp : forall v, pmain s = MUnpark v ->
          wact (W s v) = true /\ parkish (wpc (W s v)) = true /\ wtok (W s v) = false;
  i_wact : forall x v, wpc (W s x) = WAct v -> v < length (pws s);
  i_last : forall j, last_pc (wpc (W s j)) = true -> forall v, v <> j -> wact (W s v) = false;
  i_last0 : forall j, wpc (W s j) = WPost [BSetAllInactive; BUnparkMain; BPark] -> pinj s = 0;
  i_main : main_quiet (pmain s) = true -> forall v, wact (W s v) = false;
  i_snap : forall a, pmain s = MAct a -> a = acts s;
  i_inj : 0 < pinj s -> (exists v, wact (W s v) = true) \/ pmain s = MIdle \/ exists a, pmain s = MAct a;
  i_sum : (pmsg s + sumc (pws s) = pnet s)%Z;
  i_pan : ppanic s = 0;
  i_reads : forall m n, In (m, n) (preads s) -> m = n;
  (* progress clauses: a wake-up that is needed is on its way *)
  i_wake : forall v, wact (W s v) = true -> parkish (wpc (W s v)) = true ->
           wtok (W s v) = true \/ (exists x, wpc (W s x) = WUnpark v) \/ pmain s = MUnpark v;
  i_mwake : pmain s = MPark -> (forall v, wact (W s v) = false) ->
            pmtok s = true \/ exists x, wpc (W s x) = WPost [BUnparkMain; BPark]
}.

(* ---- list facts ---- *)
Lemma nth_lupd {A} (l : list A) i j x d :
  nth j (lupd l i x) d = if Nat.eqb j i && (i <? length l) then x else nth j l d.
Proof.
  revert i j; induction l as [|y l IH]; intros i j.
  - cbn [lupd length]. replace (i <? 0) with false by (symmetry; apply Nat.ltb_ge; lia).
    rewrite andb_false_r. reflexivity.
  - destruct i as [|i], j as [|j]; cbn [lupd nth length Nat.eqb andb]; try reflexivity.
    rewrite IH. replace (S i <? S (length l)) with (i <? length l); [reflexivity|].
    destruct (Nat.ltb_spec i (length l)), (Nat.ltb_spec (S i) (S (length l))); auto; lia.
Qed.

Lemma W_set_w s j w x : j < length (pws s) -> W (set_w s j w) x = if Nat.eqb x j then w else W s x.
Proof.
  intros H. unfold W, set_w, set_ws; cbn [pws]. rewrite nth_lupd.
  destruct (Nat.ltb_spec j (length (pws s))); [|lia]. rewrite andb_true_r. reflexivity.
Qed.

Lemma W_nth_error s j w : nth_error (pws s) j = Some w -> W s j = w /\ j < length (pws s).
Proof.
  intros H. split; [unfold W; apply nth_error_nth; auto|]. apply nth_error_Some. congruence.
Qed.

Lemma W_out s j : length (pws s) <= j -> W s j = wdef.
Proof. intros H. unfold W. apply nth_overflow; auto. Qed.

Lemma sumc_lupd l j w : j < length l -> sumc (lupd l j w) = (sumc l - wcnt (nth j l wdef) + wcnt w)%Z.
Proof.
  revert j; induction l as [|y l IH]; intros j H; cbn [length] in H; [lia|].
  destruct j; cbn [lupd sumc nth]; [lia|]. rewrite IH by lia. lia.
Qed.

Lemma sumc_map_act l b : sumc (map (fun x => set_act x b) l) = sumc l.
Proof. induction l as [|y l IH]; cbn [map sumc]; [reflexivity|]. rewrite IH. reflexivity. Qed.

Lemma sumc_zero l : (forall j, wcnt (nth j l wdef) = 0%Z) -> sumc l = 0%Z.
Proof.
  induction l as [|y l IH]; intros H; cbn [sumc]; [reflexivity|].
  rewrite IH; [|intros j; apply (H (S j))]. specialize (H 0); cbn in H. lia.
Qed.

Lemma length_set_w s j w : length (pws (set_w s j w)) = length (pws s).
Proof. unfold set_w, set_ws; cbn [pws]. apply lupd_length. Qed.

Lemma acts_nth s v : nth v (acts s) false = wact (W s v).
Proof. unfold acts, W. change false with (wact wdef). apply map_nth. Qed.

Lemma all_inactive_spec l : all_inactive l = true <-> forall v, nth v l false = false.
Proof.
  unfold all_inactive. induction l as [|b l IH]; cbn [forallb].
  - split; auto. intros _ v; destruct v; reflexivity.
  - rewrite andb_true_iff, IH. split.
    + intros [Hb H] v; destruct v; cbn [nth]; [destruct b; cbn in *; congruence|apply H].
    + intros H; split; [specialize (H 0); cbn in H; subst; reflexivity|intros v; apply (H (S v))].
Qed.

Lemma only_bit_spec l j : j < length l -> only_bit l j = true ->
  nth j l false = true /\ forall v, v <> j -> nth v l false = false.
Proof.
  revert j; induction l as [|b l IH]; intros j Hj; cbn [length] in Hj; [lia|].
  destruct j; cbn [only_bit nth]; rewrite andb_true_iff; intros [H1 H2].
  - split; auto. intros v Hv; destruct v; [lia|]. cbn [nth]. apply all_inactive_spec; auto.
  - destruct (IH j ltac:(lia) H2) as [Ha Hb]. split; auto.
    intros v Hv; destruct v; cbn [nth]; [destruct b; cbn in *; congruence|apply Hb; lia].
Qed.

Lemma only_bit_false l j : j < length l -> only_bit l j = false -> nth j l false = true ->
  exists v, v <> j /\ nth v l false = true.
Proof.
  revert j; induction l as [|b l IH]; intros j Hj; cbn [length] in Hj; [lia|].
  destruct j; cbn [only_bit nth]; intros H Hb.
  - subst b. cbn [andb] in H.
    assert (E : ~ forall v, nth v l false = false) by (intros E; apply all_inactive_spec in E; congruence).
    clear H IH Hj. induction l as [|c l IHl]; [exfalso; apply E; intros v; destruct v; reflexivity|].
    destruct c; [exists 1; split; [lia|reflexivity]|].
    destruct IHl as [v [Hv1 Hv2]].
    + intros F; apply E; intros v; destruct v; [reflexivity|apply F].
    + destruct v; [lia|]. exists (S (S v)); split; [lia|exact Hv2].
  - destruct b; cbn [negb andb] in H.
    + exists 0; split; [lia|reflexivity].
    + destruct (IH j ltac:(lia) H Hb) as [v [Hv1 Hv2]]. exists (S v); split; [lia|exact Hv2].
Qed.

Lemma first_idle_all_false l : 1 <= length l -> (forall v, nth v l false = false) -> first_idle l = Some 0.
Proof.
  intros H Hf. destruct l as [|b l]; [cbn in H; lia|]. specialize (Hf 0); cbn in Hf; subst.
  reflexivity.
Qed.

(* ---- the initial state ---- *)
Lemma W_init n j : W (p_init n) j = wdef.
Proof.
  unfold W, p_init; cbn [pws]. destruct (Nat.lt_ge_cases j n) as [H|H].
  - apply nth_repeat.
  - apply nth_overflow. rewrite repeat_length; auto.
Qed.

Lemma sumc_repeat n : sumc (repeat wdef n) = 0%Z.
Proof. induction n as [|n IH]; cbn [repeat sumc]; [reflexivity|]. rewrite IH. reflexivity. Qed.

Lemma inv_init n : 1 <= n -> Inv (p_init n).
Proof.
  intros Hn. constructor; intros; rewrite ?W_init in *; cbn in *;
    try solve [auto | discriminate | lia | tauto | rewrite repeat_length; lia
              | unfold clean; cbn; auto | rewrite sumc_repeat; reflexivity].
Qed.
