Require Import NX.Base.Prelude NX.Model.Sink.

Section SinkProofs.
  Variable V : Type.

  (* ---------------- EventBuffer refines the cursor-on-a-log spec -------- *)
  Record BR (b : ebuf V) (s : lspec V) : Prop := {
    BR_cap : bcap b = lcap s;
    BR_open : bopen b = lopen s;
    BR_q : bq b = skipn (lcur s) (llog s);
    BR_cur : lcur s <= length (llog s);
    BR_len : length (llog s) - lcur s <= lcap s
  }.

  Lemma skipn_app_le {A} (l1 l2 : list A) n : n <= length l1 ->
    skipn n (l1 ++ l2) = skipn n l1 ++ l2.
  Proof. intros H. rewrite skipn_app. replace (n - length l1) with 0 by lia. reflexivity. Qed.

  Lemma tl_skipn {A} (l : list A) n : tl (skipn n l) = skipn (S n) l.
  Proof.
    revert n; induction l as [|x r IH]; intros n.
    - destruct n; reflexivity.
    - destruct n as [|n]; [reflexivity|]. cbn [skipn]. rewrite IH. reflexivity.
  Qed.

  Lemma skipn_nth_cons {A} (l : list A) n :
    skipn n l = match nth_error l n with Some x => x :: skipn (S n) l | None => [] end.
  Proof.
    revert n; induction l as [|x r IH]; intros [|n]; cbn [skipn nth_error]; auto.
    rewrite IH. destruct (nth_error r n); reflexivity.
  Qed.

  Lemma BR_new cap o : 1 <= cap -> BR (@ebuf_new V cap o) (@lspec_new V cap o).
  Proof. intros H; split; cbn; auto; lia. Qed.

  Lemma buf_step_refines b s o :
    1 <= lcap s -> BR b s ->
    snd (ebuf_step b o) = snd (lspec_step s o) /\ BR (fst (ebuf_step b o)) (fst (lspec_step s o)).
  Proof.
    intros Hc [H1 H2 H3 H4 H5].
    destruct o as [v| | |]; cbn [ebuf_step lspec_step].
    - unfold ebuf_write. rewrite H2. destruct (lopen s) eqn:Eo; cbn [fst snd].
      2:{ split; auto. split; auto. congruence. }
      split; auto.
      rewrite H3, skipn_length, H1.
      destruct (Nat.eqb_spec (length (llog s) - lcur s) (lcap s)) as [E|E];
        split; cbn [bcap bopen bq lcap lopen llog lcur]; auto;
        try (rewrite app_length; cbn [length]; lia).
      + rewrite tl_skipn. rewrite skipn_app_le by lia. reflexivity.
      + rewrite skipn_app_le by lia. reflexivity.
    - unfold ebuf_next. rewrite H3. rewrite skipn_nth_cons.
      destruct (nth_error (llog s) (lcur s)) as [x|] eqn:E; cbn [fst snd].
      + split; auto. assert (lcur s < length (llog s)) by (apply nth_error_Some; congruence).
        split; cbn [bcap bopen bq lcap lopen llog lcur]; auto; lia.
      + split; [reflexivity|]. split; auto.
    - cbn [fst snd]. split; auto. split; cbn; auto.
    - cbn [fst snd]. split; auto. split; cbn; auto.
  Qed.

  Lemma lspec_step_cap (s : lspec V) o : lcap (fst (lspec_step s o)) = lcap s.
  Proof.
    destruct o; cbn [lspec_step]; try reflexivity.
    - destruct (lopen s); reflexivity.
    - destruct (nth_error _ _); reflexivity.
  Qed.

  Theorem ebuf_refines_gen ops : forall b s, 1 <= lcap s -> BR b s ->
    ebuf_run b ops = lspec_run s ops.
  Proof.
    induction ops as [|o r IH]; intros b s Hc HR; cbn [ebuf_run lspec_run]; auto.
    destruct (buf_step_refines b s o Hc HR) as [E1 E2].
    pose proof (lspec_step_cap s o) as Ec.
    destruct (ebuf_step b o) as [b' x], (lspec_step s o) as [s' y]. cbn [fst snd] in *.
    subst y. f_equal. apply IH; auto. lia.
  Qed.

  Theorem ebuf_refines cap o ops : 1 <= cap ->
    ebuf_run (@ebuf_new V cap o) ops = lspec_run (@lspec_new V cap o) ops.
  Proof. intros H. apply ebuf_refines_gen; [exact H|apply BR_new; exact H]. Qed.

  (* The buffer content in every reachable state: the last |bq| accepted
     writes, never more than cap of them. *)
  Theorem ebuf_reachable cap o ops : 1 <= cap ->
    let b := ebuf_exec (@ebuf_new V cap o) ops in
    let s := lspec_exec (@lspec_new V cap o) ops in
    BR b s.
  Proof.
    intros Hc.
    assert (G : forall b s, 1 <= lcap s -> BR b s -> BR (ebuf_exec b ops) (lspec_exec s ops)).
    { induction ops as [|x r IH]; intros b s H HR; cbn [ebuf_exec lspec_exec]; auto.
      destruct (buf_step_refines b s x H HR) as [_ E2]. apply IH; auto.
      rewrite lspec_step_cap; auto. }
    apply G; [exact Hc|apply BR_new; exact Hc].
  Qed.


  Lemma lspec_exec_cap ops : forall s0 : lspec V, lcap (lspec_exec s0 ops) = lcap s0.
  Proof.
    induction ops as [|x r IH]; intros s0; cbn [lspec_exec]; auto.
    rewrite IH. apply lspec_step_cap.
  Qed.

  Theorem ebuf_content cap o ops : 1 <= cap ->
    let b := ebuf_exec (@ebuf_new V cap o) ops in
    let s := lspec_exec (@lspec_new V cap o) ops in
    bq b = skipn (lcur s) (llog s) /\ lcur s <= length (llog s) /\
    length (llog s) - lcur s <= cap /\ bopen b = lopen s.
  Proof.
    intros H b s.
    destruct (ebuf_reachable cap o ops H) as [H1 H2 H3 H4 H5].
    fold b in H1, H2, H3. fold s in H1, H2, H3, H4, H5.
    assert (E : lcap s = cap) by (unfold s; rewrite lspec_exec_cap; reflexivity).
    rewrite E in H5. auto.
  Qed.

  (* Facts about the specification itself, which say what the cursor means. *)
  Lemma lspec_log_grows (s : lspec V) o :
    exists ext, llog (fst (lspec_step s o)) = llog s ++ ext /\
      (ext = [] \/ exists v, o = SWrite v /\ lopen s = true /\ ext = [v]).
  Proof.
    destruct o as [v| | |]; cbn [lspec_step].
    - destruct (lopen s) eqn:E; cbn [fst llog].
      + exists [v]. split; auto. right. exists v; auto.
      + exists []. rewrite app_nil_r; auto.
    - destruct (nth_error _ _); exists []; cbn; rewrite app_nil_r; auto.
    - exists []; cbn; rewrite app_nil_r; auto.
    - exists []; cbn; rewrite app_nil_r; auto.
  Qed.

  Lemma lspec_cur_mono (s : lspec V) o : lcur s <= lcur (fst (lspec_step s o)).
  Proof.
    destruct o as [v| | |]; cbn [lspec_step]; try (cbn; lia).
    - destruct (lopen s); cbn [fst lcur]; [|lia]. destruct (Nat.eqb _ _); lia.
    - destruct (nth_error _ _); cbn; lia.
  Qed.

  (* A read returns the log entry under the cursor and moves past it. *)
  Lemma lspec_read (s : lspec V) x s' : lspec_step s SRead = (s', Some x) ->
    nth_error (llog s) (lcur s) = Some x /\ lcur s' = S (lcur s) /\ llog s' = llog s.
  Proof.
    cbn [lspec_step]. destruct (nth_error _ _) eqn:E; intros H; inversion H; subst; cbn; auto.
  Qed.

  (* A write is dropped iff the sink is closed; an accepted write discards
     exactly the oldest unread entry, and only when cap entries are unread. *)
  Lemma lspec_write (s : lspec V) v :
    let s' := fst (lspec_step s (SWrite v)) in
    (lopen s = false -> s' = s) /\
    (lopen s = true -> llog s' = llog s ++ [v] /\
       lcur s' = (if Nat.eqb (length (llog s) - lcur s) (lcap s) then S (lcur s) else lcur s)).
  Proof. cbn [lspec_step]. destruct (lopen s); cbn; split; intros; auto; discriminate. Qed.

  (* ---------------- EventSlot ---------------- *)
  (* value held = the last accepted write since the last read *)
  Fixpoint slot_spec (o : bool) (cur : option V) (ops : list (sink_op V)) : list (option V) :=
    match ops with
    | [] => []
    | SWrite v :: r => None :: slot_spec o (if o then Some v else cur) r
    | SRead :: r => cur :: slot_spec o None r
    | SOpen :: r => None :: slot_spec true cur r
    | SClose :: r => None :: slot_spec false cur r
    end.

  Theorem eslot_refines ops : forall s,
    eslot_run s ops = slot_spec (sopen s) (sval s) ops.
  Proof.
    induction ops as [|o r IH]; intros s; cbn [eslot_run slot_spec]; auto.
    destruct o as [v| | |]; cbn [eslot_step]; cbn [eslot_next]; f_equal; rewrite IH.
    - unfold eslot_write. destruct (sopen s) eqn:Eo; cbn [sopen sval]; rewrite ?Eo; reflexivity.
    - reflexivity.
    - reflexivity.
    - reflexivity.
  Qed.
End SinkProofs.
