(* The channel protocol keeps its invariant along every execution; consequences. *)
Require Import NX.Base.Prelude NX.Base.ListX NX.Model.Chan NX.Proofs.ChanInv NX.Proofs.ChanSteps.

Global Arguments S_ : simpl never.

Ltac side HS Epc :=
  rewrite ?HS; rewrite ?Epc; cbn; rewrite ?Epc; cbn;
  try solve [ reflexivity | intros [F|F]; discriminate F | discriminate | tauto | auto | lia | intros; discriminate
            | intros F; discriminate F | left; split; reflexivity | left; lia | right; left; reflexivity ].

Lemma try_push_some s s' : ctry_push s = Some s' ->
  cocc s < ccap s /\ cocc s' = S (cocc s) /\ cavail s' = S (cavail s) /\ csnd s' = csnd s /\ ccap s' = ccap s /\
  rpc_ s' = rpc_ s /\ rreg s' = rreg s /\ rwk s' = rwk s /\ rpend s' = rpend s.
Proof.
  unfold ctry_push. destruct (Nat.ltb_spec (cocc s) (ccap s)) as [L|L]; [|discriminate]. intros E; injection E as <-. cbn. tauto.
Qed.

Lemma try_push_none s : ctry_push s = None -> ccap s <= cocc s.
Proof. unfold ctry_push. destruct (Nat.ltb_spec (cocc s) (ccap s)); [discriminate|auto]. Qed.

Lemma sender_step_inv s x v pick sp s' :
  CInv s -> nth_error (csnd s) x = Some v -> sender_step chan_fixed s x v pick sp = Some s' -> CInv s'.
Proof.
  intros I Hn Hs. destruct (S_nth_error _ _ _ Hn) as [HS Hx].
  pose proof (c_post s I x) as Hpost. pose proof (c_sh s I x) as Hsh. pose proof (c_in s I x) as Hin.
  pose proof (c_slp s I x) as Hslp. rewrite HS in Hpost, Hsh, Hin, Hslp.
  pose proof (c_cap s I) as Hcap.
  unfold sender_step in Hs.
  destruct (spc_ v) as [| | | | | | |ops] eqn:Epc.
  - discriminate.
  - (* SPoll *) injection Hs as <-.
    eapply (sender_upd s _ x _ I Hx); try reflexivity; side HS Epc.
  - (* SCheck1 *)
    destruct (c_aw s I x) as [Sf Wf]; [rewrite HS; auto|]. rewrite HS in Sf, Wf.
    destruct (ctry_push s) as [s1|] eqn:Et.
    + destruct (try_push_some _ _ Et) as (A & Eo & Ea & Esn & Ec & Er1 & Er2 & Er3 & Er4). injection Hs as <-.
      eapply (sender_upd s _ x (cmk_s (SPost [SNotifyRecv; SCountInc]) (sin v) (swk v) false) I Hx);
        try (cbn; congruence); side HS Epc;
        try solve [ cbn; rewrite Esn; reflexivity | right; cbn; rewrite Eo, Ea; auto
                  | left; rewrite Eo; destruct (sh v); unfold b2n; lia | rewrite Sf; discriminate ].

    + injection Hs as <-. pose proof (try_push_none _ Et) as Full.
      eapply (sender_upd s _ x _ I Hx); try reflexivity; side HS Epc;
        try solve [ right; lia | rewrite Sf; discriminate ].
  - (* SIns *) injection Hs as <-.
    destruct (c_aw s I x) as [Sf Wf]; [rewrite HS; auto|]. rewrite HS in Sf, Wf.
    assert (Shf : sh v = false).
    { destruct (sh v) eqn:E; auto. destruct (Hsh eq_refl) as [_ [F|[F _]]]; discriminate. }
    eapply (sender_upd s _ x _ I Hx); try reflexivity; side HS Epc;
      try solve [ rewrite Shf; discriminate | rewrite Shf; cbn; lia | intros _; split; auto | left; rewrite Shf; cbn; lia ].
  - (* SCheck2 *)
    assert (Wf : swk v = false \/ sin v = false).
    { destruct (sin v) eqn:E; [left; apply Hin; reflexivity|right; reflexivity]. }
    destruct (ctry_push s) as [s1|] eqn:Et.
    + destruct (try_push_some _ _ Et) as (A & Eo & Ea & Esn & Ec & Er1 & Er2 & Er3 & Er4). injection Hs as <-.
      eapply (sender_upd s _ x (cmk_s SCancel (sin v) (swk v) (sh v)) I Hx);
        try (cbn; congruence); side HS Epc;
        try solve [ cbn; rewrite Esn; reflexivity | right; cbn; rewrite Eo, Ea; auto
                  | left; rewrite Eo; destruct (sh v); unfold b2n; lia
                  | intros H; destruct (Hsh H) as [A1 _]; auto
                  | intros H; destruct (Hin H) as [_ A1]; auto ].

    + injection Hs as <-. pose proof (try_push_none _ Et) as Full.
      pose proof (c_c2 s I x) as Hc2. rewrite HS in Hc2.
      eapply (sender_upd s _ x _ I Hx); try reflexivity; side HS Epc;
        try solve [ right; lia | intros H; destruct (Hin H) as [_ A1]; auto | intros _; apply Hc2; exact Epc ].
  - (* SCancel *)
    assert (Shin : sin v = true -> sh v = false).
    { intros E. destruct (sh v) eqn:E2; auto. destruct (Hsh eq_refl) as [F _]. congruence. }
    destruct (sin v) eqn:Esin.
    + injection Hs as <-.
      eapply (sender_upd s _ x _ I Hx); try reflexivity; side HS Epc;
        try solve [ left; rewrite Shin by reflexivity; cbn; lia ].
    + destruct pick as [y|]; cbn [cnotify_one] in Hs.
      * destruct (nth_error (csnd s) y) as [w|] eqn:Ey; [|discriminate].
        destruct (S_nth_error _ _ _ Ey) as [HSy Hy].
        destruct (sin w) eqn:Ew; [|discriminate].
        assert (Hxy : x <> y) by (intros ->; congruence).
        cbn [csnd cset_s cset_snd] in Hs. rewrite nth_error_lupd_ne in Hs by auto. rewrite Hn in Hs.
        injection Hs as <-.
        eapply (notify_upd s _ y (Some (x, cmk_s (SPost [SNotifyRecv; SCountInc]) false (swk v) false)) I Hy);
          try reflexivity; rewrite ?HSy; auto.
        rewrite HS. refine (conj Hxy (conj Hx (conj Epc (conj _ (conj _ (conj _ (conj _ (conj _ _)))))))); reflexivity.
      * destruct (existsb sin (csnd s)) eqn:Eex; [discriminate|]. rewrite Hn in Hs. injection Hs as <-.
        pose proof (existsb_sin_false _ Eex) as Nos.
        eapply (sender_upd s _ x _ I Hx); try reflexivity; side HS Epc;
          try solve [ right; right; split; [intros z _; apply Nos|reflexivity] ].
  - (* SSleep *)
    destruct (swk v || sp); [|discriminate]. injection Hs as <-.
    eapply (sender_upd s _ x _ I Hx); try reflexivity; side HS Epc;
      try solve [ intros H; destruct (Hsh H) as [A _]; auto | left; lia ].
  - (* SPost *)
    assert (Shf : sh v = false).
    { destruct (sh v) eqn:E; auto. destruct (Hsh eq_refl) as [_ [F|[F _]]]; discriminate. }
    assert (Sif : sin v = false).
    { destruct (sin v) eqn:E; auto. destruct (Hin eq_refl) as [F _]. discriminate. }
    cbn in Hpost. destruct Hpost as [->|[->| ->]].
    + (* receiver_signal.notify() *)
      injection Hs as <-.
      set (s1 := if rreg s then cset_r s (rpc_ s) false true (rpend s) else s) in *.
      assert (I1 : CInv s1).
      { unfold s1. destruct (rreg s) eqn:Er; [|exact I].
        eapply (recv_upd s _ I); [reflexivity|reflexivity| | | | | | | | | ]; cbn.
        - apply I.
        - apply I.
        - apply I.
        - apply I.
        - intros z A B. pose proof (c_main s I z A B) as M. unfold notes in M. exact M.
        - apply I.
        - intros _ F; discriminate F.
        - intros _ _. reflexivity.
        - intros _ _. reflexivity. }
      assert (Hx1 : x < length (csnd s1)) by (unfold s1; destruct (rreg s); exact Hx).
      assert (HS1 : S_ s1 x = v) by (unfold s1; destruct (rreg s); exact HS).
      assert (R1 : rreg s1 = false) by (unfold s1; destruct (rreg s) eqn:E; [reflexivity|exact E]).
      eapply (sender_upd s1 _ x _ I1 Hx1); try reflexivity; side HS1 Epc;
        try solve [ rewrite Shf; discriminate | rewrite Sif; discriminate | left; rewrite Shf; cbn; lia ].
    + injection Hs as <-.
      eapply (sender_upd s _ x _ I Hx); try reflexivity; side HS Epc;
        try solve [ rewrite Shf; discriminate | rewrite Sif; discriminate | left; rewrite Shf; cbn; lia ].
    + injection Hs as <-.
      eapply (sender_upd s _ x _ I Hx); try reflexivity; side HS Epc;
        try solve [ rewrite Shf; discriminate | rewrite Sif; discriminate | left; rewrite Shf; cbn; lia ].
Qed.

Lemma main_of s : CInv s -> forall z, spc_ (S_ s z) = SSleep -> sin (S_ s z) = true -> ccap s - cocc s <= b2n (rpend s) + nsh (csnd s).
Proof. intros I z A B. exact (c_main s I z A B). Qed.

Lemma rpend_false s : CInv s -> rpc_ s <> RGot [RNotifyOne] -> rpend s = false.
Proof. intros I H. destruct (rpend s) eqn:E; auto. exfalso. apply H. apply (c_rp s I). exact E. Qed.

Ltac rfin s I :=
  cbn; try solve [ lia | intros F; discriminate F | intros _ F; discriminate F | intros _ _ F; discriminate F
                 | exact Logic.I | apply (main_of s I) | auto | tauto
                 | split; intros F; discriminate F | split; reflexivity ].

Lemma recv_step_inv s pick sp s' : CInv s -> recv_step chan_fixed s pick sp = Some s' -> CInv s'.
Proof.
  intros I Hs. unfold recv_step in Hs.
  pose proof (c_cap s I) as Hcap. pose proof (c_av s I) as Hav. pose proof (c_got s I) as Hgot.
  pose proof (main_of s I) as Hmain.
  destruct (rpc_ s) as [| | | |ops|] eqn:Epc.
  - (* RCheck1 *)
    assert (Rp : rpend s = false) by (apply rpend_false; auto; rewrite Epc; discriminate).
    rewrite Rp in Hmain.
    destruct (cavail s) as [|a] eqn:Ea; injection Hs as <-;
      (eapply (recv_upd s _ I); [reflexivity|reflexivity| | | | | | | | | ]; rewrite ?Rp; rfin s I).
  - (* RReg *)
    assert (Rp : rpend s = false) by (apply rpend_false; auto; rewrite Epc; discriminate).
    rewrite Rp in Hmain. injection Hs as <-.
    eapply (recv_upd s _ I); [reflexivity|reflexivity| | | | | | | | | ]; rewrite ?Rp; rfin s I.
  - (* RCheck2 *)
    assert (Rp : rpend s = false) by (apply rpend_false; auto; rewrite Epc; discriminate).
    rewrite Rp in Hmain.
    destruct (cavail s) as [|a] eqn:Ea; injection Hs as <-;
      (eapply (recv_upd s _ I); [reflexivity|reflexivity| | | | | | | | | ]; rewrite ?Rp; rfin s I).
    intros _ F. apply (c_r4 s I Epc F).
  - (* RSleep *)
    assert (Rp : rpend s = false) by (apply rpend_false; auto; rewrite Epc; discriminate).
    rewrite Rp in Hmain.
    destruct (rwk s || sp); [|discriminate]. injection Hs as <-.
    eapply (recv_upd s _ I); [reflexivity|reflexivity| | | | | | | | | ]; rewrite ?Rp; rfin s I.
  - (* RGot *)
    cbn in Hgot. destruct Hgot as [->|[->|[->|[->| ->]]]].
    + injection Hs as <-.
      assert (Rp : rpend s = false) by (apply rpend_false; auto; rewrite Epc; discriminate).
      rewrite Rp in Hmain.
      pose proof (c_hold s I) as Hh. rewrite Epc in Hh. specialize (Hh eq_refl).
      eapply (recv_upd s _ I); [reflexivity|reflexivity| | | | | | | | | ]; rewrite ?Rp; rfin s I.
    + injection Hs as <-.
      assert (Rp : rpend s = false) by (apply rpend_false; auto; rewrite Epc; discriminate).
      rewrite Rp in Hmain.
      pose proof (c_hold s I) as Hh. rewrite Epc in Hh. specialize (Hh eq_refl).
      eapply (recv_upd s _ I); [reflexivity|reflexivity| | | | | | | | | ]; rewrite ?Rp; rfin s I.
    + injection Hs as <-.
      assert (Rp : rpend s = false) by (apply rpend_false; auto; rewrite Epc; discriminate).
      rewrite Rp in Hmain.
      pose proof (c_hold s I) as Hh. rewrite Epc in Hh. specialize (Hh eq_refl).
      eapply (recv_upd s _ I); [reflexivity|reflexivity| | | | | | | | | ]; rewrite ?Rp; rfin s I.
      intros z A B. pose proof (Hmain z A B) as M. cbn in M. lia.
    + assert (Rp : rpend s = true) by (apply (c_rp s I); exact Epc).
      destruct pick as [y|]; cbn [cnotify_one] in Hs.
      * destruct (nth_error (csnd s) y) as [w|] eqn:Ey; [|discriminate].
        destruct (S_nth_error _ _ _ Ey) as [HSy Hy].
        destruct (sin w) eqn:Ew; [|discriminate]. injection Hs as <-.
        eapply (notify_upd s _ y None I Hy); try reflexivity; rewrite ?HSy; auto.
      * destruct (existsb sin (csnd s)) eqn:Eex; [discriminate|]. injection Hs as <-.
        pose proof (existsb_sin_false _ Eex) as Nos.
        eapply (recv_upd s _ I); [reflexivity|reflexivity| | | | | | | | | ]; rfin s I.
        intros z A B. unfold S_ in B. rewrite Nos in B. discriminate.
    + injection Hs as <-.
      assert (Rp : rpend s = false) by (apply rpend_false; auto; rewrite Epc; discriminate).
      rewrite Rp in Hmain.
      eapply (recv_upd s _ I); [reflexivity|reflexivity| | | | | | | | | ]; rewrite ?Rp; rfin s I.
  - discriminate.
Qed.

Lemma c_step_inv s l s' : CInv s -> c_step chan_fixed s l = Some s' -> CInv s'.
Proof.
  intros I Hs. destruct l as [x pick sp|x|pick sp|]; cbn [c_step] in Hs.
  - destruct (nth_error (csnd s) x) as [v|] eqn:E; [|discriminate]. eapply sender_step_inv; eauto.
  - destruct (nth_error (csnd s) x) as [v|] eqn:E; [|discriminate].
    destruct (S_nth_error _ _ _ E) as [HS Hx].
    destruct (spc_ v) eqn:Epc; try discriminate. injection Hs as <-.
    pose proof (c_sh s I x) as Hsh. pose proof (c_in s I x) as Hin. rewrite HS in Hsh, Hin.
    assert (Shf : sh v = false).
    { destruct (sh v) eqn:E2; auto. destruct (Hsh eq_refl) as [_ [F|[F _]]]; rewrite Epc in F; discriminate. }
    assert (Sif : sin v = false).
    { destruct (sin v) eqn:E2; auto. destruct (Hin eq_refl) as [F _]. rewrite Epc in F. discriminate. }
    eapply (sender_upd s _ x _ I Hx); try reflexivity; side HS Epc;
      try solve [ rewrite Shf; discriminate | rewrite Sif; discriminate | left; rewrite Shf; cbn; lia ].
  - eapply recv_step_inv; eauto.
  - destruct (rpc_ s) eqn:Epc; try discriminate. injection Hs as <-.
    assert (Rp : rpend s = false) by (apply rpend_false; auto; rewrite Epc; discriminate).
    pose proof (main_of s I) as Hmain. rewrite Rp in Hmain.
    pose proof (c_cap s I). pose proof (c_av s I).
    eapply (recv_upd s _ I); [reflexivity|reflexivity| | | | | | | | | ]; rewrite ?Rp; rfin s I.
Qed.

Theorem chan_run_inv c n ls : CInv (c_run chan_fixed (c_init c n) ls).
Proof.
  generalize (cinv_init c n). generalize (c_init c n). induction ls as [|l ls IH]; intros s I; cbn [c_run]; auto.
  destruct (c_step chan_fixed s l) as [s'|] eqn:E; [apply IH; eapply c_step_inv; eauto|apply IH; exact I].
Qed.

(* ---- consequences ---- *)
Lemma nsh_zero l : (forall x, sh (nth x l csdef) = false) -> nsh l = 0.
Proof.
  induction l as [|v l IH]; intros H; cbn [nsh]; [reflexivity|].
  rewrite IH; [|intros x; apply (H (S x))]. specialize (H 0); cbn in H. rewrite H. reflexivity.
Qed.

(* no csender is doing anything: each is idle or asleep without having been woken *)
Definition senders_settled (s : cstate) : Prop :=
  forall x, spc_ (S_ s x) = SIdle \/ (spc_ (S_ s x) = SSleep /\ swk (S_ s x) = false).

(* A csender sleeps only on a full mailbox: in any reachable state in which the senders are settled and
   the receiver has no notification left to give, a sleeping csender means that every slot is occupied. *)
Theorem chan_sender_sleeps_only_when_full c n ls x :
  let s := c_run chan_fixed (c_init c n) ls in
  senders_settled s -> rpend s = false -> spc_ (S_ s x) = SSleep -> cocc s = ccap s.
Proof.
  intros s Hs Rp Hx. pose proof (chan_run_inv c n ls) as I. fold s in I.
  assert (Nsh : forall y, sh (S_ s y) = false).
  { intros y. destruct (sh (S_ s y)) eqn:E; auto. destruct (c_sh s I y E) as [_ [A|[A B]]].
    - destruct (Hs y) as [F|[F _]]; rewrite F in A; discriminate.
    - destruct (Hs y) as [F|[_ F]]; congruence. }
  assert (Sx : sin (S_ s x) = true).
  { destruct (sin (S_ s x)) eqn:E; auto. pose proof (c_slp s I x Hx E) as W.
    destruct (Hs x) as [F|[_ F]]; congruence. }
  pose proof (c_main s I x Hx Sx) as M. unfold notes in M. rewrite Rp, nsh_zero in M by exact Nsh.
  pose proof (c_cap s I). cbn in M. lia.
Qed.

(* The receiver sleeps only on an empty mailbox (unless a csender is about to notify it). *)
Theorem chan_receiver_sleeps_only_when_empty c n ls :
  let s := c_run chan_fixed (c_init c n) ls in
  rpc_ s = RSleep -> rwk s = false ->
  (forall x, will_notify_recv (spc_ (S_ s x)) = false) -> cavail s = 0.
Proof.
  intros s Hr Hw Hn. pose proof (chan_run_inv c n ls) as I. fold s in I.
  destruct (rreg s) eqn:E.
  - destruct (c_r1 s I Hr E) as [Z|[x Hx]]; auto. rewrite Hn in Hx. discriminate.
  - rewrite (c_r2 s I Hr E) in Hw. discriminate.
Qed.

(* occupancy and queued messages stay within the capacity *)
Theorem chan_bounded c n ls :
  let s := c_run chan_fixed (c_init c n) ls in cavail s <= cocc s /\ cocc s <= ccap s.
Proof. intros s. pose proof (chan_run_inv c n ls) as I. fold s in I. split; apply I. Qed.

(* ---- the "notify only when the queue was full" variant loses a wake-up ---- *)
(* (the optimisation is not expressible as a program of the model: the closest expressible variant is the
   one that never notifies; it is refuted by a computed schedule) *)
Definition chan_no_notify : chan_prog :=
  {| cp_recv := [RCountDec; RTake; RRelease]; cp_send := [SNotifyRecv; SCountInc] |}.
Definition sched_lost : list clabel :=
  [LBegin 0; LS 0 None false; LS 0 None false;                                 (* csender 0 pushes: the queue (capacity 1) is full *)
   LBegin 1; LS 1 None false; LS 1 None false; LS 1 None false; LS 1 None false; (* csender 1: full, inserts, re-checks, sleeps *)
   LR None false; LR None false; LR None false; LR None false; LR None false].     (* the receiver pops, releases the slot, never notifies *)
Lemma chan_no_notify_refuted :
  let s := c_run chan_no_notify (c_init 1 2) sched_lost in
  spc_ (S_ s 1) = SSleep /\ sin (S_ s 1) = true /\ swk (S_ s 1) = false /\ cocc s = 0 /\ ccap s = 1 /\ rpend s = false.
Proof. vm_compute. repeat split. Qed.
