(* The programs GENERATED from channel.rs (gen/ChanProg.v, rewritten from the source on every run) are the
   programs the channel proofs are about. *)
Require Import NX.Base.Prelude NX.Base.ListX NX.Model.Chan NX.gen.ChanProg NX.Proofs.ChanInv NX.Proofs.ChanProofs NX.Proofs.ChanCount.

Lemma chan_gen_is_proved : chan_gen = chan_fixed.
Proof. reflexivity. Qed.

Theorem chan_gen_sender_sleeps_only_when_full c n ls x :
  let s := c_run chan_gen (c_init c n) ls in
  senders_settled s -> rpend s = false -> spc_ (S_ s x) = SSleep -> cocc s = ccap s.
Proof. rewrite chan_gen_is_proved. exact (chan_sender_sleeps_only_when_full c n ls x). Qed.

Theorem chan_gen_receiver_sleeps_only_when_empty c n ls :
  let s := c_run chan_gen (c_init c n) ls in
  rpc_ s = RSleep -> rwk s = false ->
  (forall x, will_notify_recv (spc_ (S_ s x)) = false) -> cavail s = 0.
Proof. rewrite chan_gen_is_proved. exact (chan_receiver_sleeps_only_when_empty c n ls). Qed.

Theorem chan_gen_bounded c n ls :
  let s := c_run chan_gen (c_init c n) ls in cavail s <= cocc s /\ cocc s <= ccap s.
Proof. rewrite chan_gen_is_proved. exact (chan_bounded c n ls). Qed.

Theorem chan_gen_count_is_queued c n ls :
  let s := c_run chan_gen (c_init c n) ls in
  (forall x, inc_pending (spc_ (S_ s x)) = false) -> dec_pending (rpc_ s) = false ->
  ccount s = Z.of_nat (cavail s).
Proof. rewrite chan_gen_is_proved. exact (chan_count_is_queued c n ls). Qed.
