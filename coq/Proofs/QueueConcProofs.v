(* The concurrent queue model: the invariant holds in every reachable state, and what it gives. *)
Require Import NX.Base.Prelude NX.Base.ListX NX.Model.QueueConc NX.Proofs.QueueConcInv NX.Proofs.QueueConcSteps NX.Proofs.IPQOrder.

Section Top.
  Variable V : Type.
  Notation cstate := (cstate V).

  Lemma cq_step_inv (s s' : cstate) t b : CInv V s -> cq_step s t b = Some s' -> CInv V s'.
  Proof.
    intros HI Hstep. destruct t as [|[|i]]; cbn [cq_step] in Hstep.
    - eapply cons_step_inv; eauto.
    - injection Hstep as <-. destruct HI as [C1 C2 C3 C4 C5 C6 C7 C8 C9 C10 C11]. constructor; assumption.
    - destruct (nth_error (prods s) i) as [p|] eqn:Ei; [|discriminate]. eapply prod_step_inv; eauto.
  Qed.

  Lemma cq_run_inv sched : forall s : cstate, CInv V s -> CInv V (cq_run s sched).
  Proof.
    induction sched as [|[t b] r IH]; intros s HI; [exact HI|]. cbn [cq_run].
    destruct (cq_step s t b) as [s'|] eqn:E; [apply IH; eapply cq_step_inv; eauto|apply IH; exact HI].
  Qed.

  Lemma nth_error_seqn len : forall st i, nth_error (seqn st len) i = if Nat.ltb i len then Some (st + i) else None.
  Proof.
    induction len as [|len IH]; intros st i; cbn [seqn].
    - destruct i; reflexivity.
    - destruct i as [|i]; cbn [nth_error]; [change (Nat.ltb 0 (S len)) with true; cbv iota; f_equal; lia|]. rewrite IH.
      change (Nat.ltb (S i) (S len)) with (Nat.ltb i len). destruct (Nat.ltb i len); [f_equal; lia|reflexivity].
  Qed.

  Lemma seqn_length len : forall st, length (seqn st len) = len.
  Proof. induction len as [|len IH]; intros st; cbn; [reflexivity|rewrite IH; reflexivity]. Qed.

  Lemma cq_init_inv capacity (pv : list (list V)) npops : 1 <= capacity -> CInv V (cq_init capacity pv npops).
  Proof.
    intros Hc. constructor; cbn [cq_init cap slots log enq cerr deq prods con popped].
    - exact Hc.
    - rewrite map_length, seqn_length. reflexivity.
    - reflexivity.
    - reflexivity.
    - lia.
    - unfold rel. cbn. lia.
    - intros m Hm. unfold rel in Hm. cbn in Hm. unfold slot_ok, published_ok. cbn [cq_init enq deq log con cpc].
      split; [intros Hlt; lia|intros _].
      unfold slot_at. cbn [cap slots cq_init]. rewrite Nat.mod_small by lia.
      apply nth_error_nth. rewrite nth_error_map, nth_error_seqn.
      destruct (Nat.ltb_spec m capacity); [reflexivity|lia].
    - intros i p Hp. rewrite nth_error_map in Hp. destruct (nth_error pv i) as [vs|]; [|discriminate].
      injection Hp as <-. unfold prod_ok, in_flight. cbn.
      split; [lia|]. split; [reflexivity|]. split; [intros Hx; lia|]. split; [intros Hx; discriminate|].
      split; [intros [Hx|Hx]; discriminate|]. split; [intros n v []|exact I].
    - intros i j p q Hp Hq _ Fp. rewrite nth_error_map in Hp. destruct (nth_error pv i) as [vs|]; [|discriminate].
      injection Hp as <-. destruct Fp as [Hx|Hx]; discriminate.
    - unfold con_ok. cbn. split; [lia|]. split; [intros Hx; lia|]. split; [intros Hx; discriminate|intros Hx; lia].
    - reflexivity.
  Qed.

  Theorem cq_reachable_inv capacity (pv : list (list V)) npops sched :
    1 <= capacity -> CInv V (cq_run (cq_init capacity pv npops) sched).
  Proof. intros Hc. apply cq_run_inv. apply cq_init_inv. exact Hc. Qed.

  (* ---------------- consequences ---------------- *)
  (* FIFO, exactly once, nothing invented: what the consumer has taken is a prefix of the values
     in the order in which they were accepted *)
  Theorem cq_fifo (s : cstate) : CInv V s -> exists k, k <= length (log s) /\ popped s = firstn k (log s).
  Proof.
    intros HI. exists (taken V s). split; [|exact (ci_popped V s HI)].
    pose proof (ci_log V s HI). pose proof (ci_deq V s HI). unfold taken. destruct (Nat.eqb (cpc (con s)) 3); lia.
  Qed.

  (* bounded: at most cap messages are accepted and not yet handed back by the consumer *)
  Theorem cq_bounded (s : cstate) : CInv V s -> enq s - rel V s <= cap s /\ rel V s <= deq s <= enq s.
  Proof.
    intros HI. pose proof (ci_full V s HI). pose proof (ci_deq V s HI).
    unfold rel in *. destruct (Nat.leb 3 (cpc (con s))); lia.
  Qed.

  (* the messages accepted from one producer sit in the log in the order in which it sent them *)
  Theorem cq_producer_order (s : cstate) i p :
    CInv V s -> nth_error (prods s) i = Some p ->
    sdesc (map fst (ptix p)) /\ forall n v, In (n, v) (ptix p) -> nth_error (log s) n = Some v.
  Proof.
    intros HI Hp. destruct (ci_prod V s HI i p Hp) as (_ & _ & _ & _ & _ & P6 & P7). split; assumption.
  Qed.

  (* no "unreachable!()" arm and no failed debug assertion *)
  Theorem cq_no_unreachable (s : cstate) : CInv V s -> cerr s = 0.
  Proof. intros HI. exact (ci_err V s HI). Qed.

  (* len() is the number of messages held whenever no operation is in flight *)
  Theorem cq_len_quiescent (s : cstate) :
    CInv V s -> quiescent s -> cq_len s = length (log s) - length (popped s) /\ cq_len s <= cap s.
  Proof.
    intros HI [Hc _]. pose proof (ci_log V s HI). pose proof (ci_deq V s HI). pose proof (ci_full V s HI) as Hf.
    rewrite (ci_popped V s HI). unfold taken, cq_len. unfold rel in Hf. rewrite Hc in *. cbn in *.
    rewrite firstn_length. split; lia.
  Qed.

  (* after close() nothing more is accepted *)
  Theorem cq_closed_no_accept (s s' : cstate) t b : closed s = true -> cq_step s t b = Some s' -> log s' = log s /\ closed s' = true.
  Proof.
    intros Hcl Hstep. destruct t as [|[|i]]; cbn [cq_step] in Hstep.
    - unfold cons_step in Hstep.
      destruct (cpc (con s)) as [|[|[|[|[|[|n]]]]]]; try discriminate.
      + destruct (cleft (con s)); [discriminate|]. injection Hstep as <-. auto.
      + injection Hstep as <-. auto.
      + destruct (Nat.eqb _ _); injection Hstep as <-; auto.
      + destruct (slot_at s _) as [st [|v|]]; injection Hstep as <-; auto.
      + destruct (slot_at s _) as [st ce]; injection Hstep as <-; auto.
      + destruct (slot_at s _) as [st ce]; injection Hstep as <-; auto.
    - injection Hstep as <-. auto.
    - destruct (nth_error (prods s) i) as [p|]; [|discriminate]. unfold prod_step in Hstep.
      destruct (pvals p) as [|v rest]; [discriminate|].
      destruct (ppc p) as [|[|[|[|[|n]]]]]; try discriminate.
      + injection Hstep as <-. auto.
      + destruct (pclo p); injection Hstep as <-; auto.
      + rewrite Hcl in Hstep. rewrite andb_false_r in Hstep. cbn [andb] in Hstep.
        destruct (Nat.eqb _ _); [injection Hstep as <-; auto|].
        destruct (Nat.ltb _ _); injection Hstep as <-; auto.
      + destruct (slot_at s _) as [st ce]; injection Hstep as <-; auto.
      + destruct (slot_at s _) as [st ce]; injection Hstep as <-; auto.
  Qed.

  (* Closed is reported to the consumer only when the queue is closed and every accepted message
     has been delivered: messages already accepted remain receivable *)
  Theorem cq_closed_only_when_drained (s s' : cstate) :
    CInv V s -> cons_step s = Some s' -> cout (con s') = CrClosed :: cout (con s) ->
    closed s = true /\ popped s = log s.
  Proof.
    intros HI Hstep Hout. unfold cons_step in Hstep.
    assert (Hneq : forall (l : list (cres V)) x, l <> x :: l).
    { intros l x E. apply (f_equal (@length _)) in E. cbn in E. lia. }
    destruct (cpc (con s)) as [|[|[|[|[|[|n]]]]]] eqn:Hpc; try discriminate.
    - destruct (cleft (con s)); [discriminate|]. injection Hstep as <-. cbn in Hout. exfalso. eapply Hneq; eauto.
    - injection Hstep as <-. cbn in Hout. exfalso. eapply Hneq; eauto.
    - destruct (Nat.eqb_spec (cst (con s)) (2 * cdeq (con s))) as [Est|Est]; injection Hstep as <-; cbn in Hout.
      + destruct (closed s) eqn:Hcl; [|cbn in Hout; discriminate]. cbn [andb] in Hout.
        destruct (Nat.eqb_spec (enq s) (cdeq (con s))) as [Ee|Ee]; [|discriminate].
        split; [reflexivity|]. destruct (ci_con V s HI) as (_ & K2 & _). specialize (K2 ltac:(lia)).
        rewrite (ci_popped V s HI). unfold taken. rewrite Hpc. cbn [Nat.eqb]. rewrite Nat.sub_0_r.
        rewrite <- K2, <- Ee, <- (ci_log V s HI). apply firstn_all.
      + exfalso. eapply Hneq; eauto.
    - destruct (slot_at s _) as [st [|v|]]; injection Hstep as <-; cbn in Hout; try discriminate; exfalso; eapply Hneq; eauto.
    - destruct (slot_at s _) as [st ce]; injection Hstep as <-. cbn in Hout. exfalso. eapply Hneq; eauto.
    - destruct (slot_at s _) as [st ce]; injection Hstep as <-. cbn in Hout. exfalso. eapply Hneq; eauto.
  Qed.
End Top.
