(* Completeness of the critical section: an entry that leaves the queue during
   a step was either cancelled or has been turned into a task (fired).  With
   q_after (nothing due is left) this says: every live action due at the step's
   time is fired in that step - none is silently dropped, and cancelling one
   action never removes another. *)
Require Import NX.Base.Prelude NX.Base.ListX NX.Model.PQ NX.Model.Sink NX.Model.Sim.
Require Import NX.Proofs.PQProofs NX.Proofs.SimBasic NX.Proofs.SimDriver NX.Proofs.SimQueue NX.Proofs.SimSched NX.Proofs.SimTerm.

Lemma in_remove_epoch_other (l : list (item action)) e y :
  In y l -> iepoch y <> e -> In y (remove_epoch e l).
Proof.
  induction l as [|x r IH]; intros Hy NE; [destruct Hy|]. cbn [remove_epoch].
  destruct (N.eqb_spec (iepoch x) e) as [E|E].
  - destruct Hy as [->|Hy]; [congruence|exact Hy].
  - destruct Hy as [->|Hy]; [left; reflexivity|right; apply IH; auto].
Qed.

Lemma sorted_epoch_inj (l : list (item action)) a b :
  epochs_sorted action l -> In a l -> In b l -> iepoch a = iepoch b -> a = b.
Proof.
  intros Hs Ha Hb E. apply In_nth_error in Ha. apply In_nth_error in Hb. destruct Ha as [i Hi], Hb as [j Hj].
  destruct (Nat.lt_trichotomy i j) as [L|[L|L]].
  - pose proof (Hs _ _ _ _ L Hi Hj). lia.
  - subst. congruence.
  - pose proof (Hs _ _ _ _ L Hj Hi). lia.
Qed.

(* pull removes exactly the item it returns *)
Lemma pq_pull_removes q k a q' :
  pq_wf q -> pq_pull q = (Some (k, a), q') ->
  exists m, In m (items q) /\ ikey m = k /\ ival m = a /\
            forall y, In y (items q) -> y <> m -> In y (items q').
Proof.
  intros [Hs Hb]. unfold pq_pull. destruct (pq_peek_item q) as [m|] eqn:E; [|discriminate].
  intros H; injection H as <- <- <-. apply peek_item_spec in E. destruct E as [Hm _].
  exists m. repeat split; auto. intros y Hy NE. cbn [items]. apply in_remove_epoch_other; auto.
  intros EE. apply NE. eapply sorted_epoch_inj; eauto.
Qed.

(* peek_next_key only discards cancelled entries *)
Lemma peek_next_discards fuel : forall s q bound nk q',
  pq_wf q -> peek_next fuel s q bound = (nk, q') ->
  forall y, In y (items q) -> In y (items q') \/ key_cancelled s (akey (ival y)) = true.
Proof.
  induction fuel as [|f IH]; intros s q bound nk q' HW H y Hy; cbn [peek_next] in H.
  - injection H as <- <-. auto.
  - destruct (pq_peek q) as [[k a]|] eqn:EP; [|injection H as <- <-; auto].
    destruct (le_bound (fst k) bound); [|injection H as <- <-; auto].
    destruct (key_cancelled s (akey a)) eqn:EC; [|injection H as <- <-; auto].
    destruct (pq_pull q) as [o q1] eqn:EL. cbn [snd] in H.
    assert (o = Some (k, a)).
    { unfold pq_pull in EL. unfold pq_peek in EP. destruct (pq_peek_item q) as [mm|]; [|discriminate].
      injection EL as <- _. injection EP as <- <-. reflexivity. }
    subst o. destruct (pq_pull_removes _ _ _ _ HW EL) as (m & Hm & Hk & Ha & Hrest).
    destruct (pq_pull_wf _ _ _ _ HW EL) as (W1 & _).
    assert (D : {y = m} + {y <> m}).
    { destruct (N.eq_dec (iepoch y) (iepoch m)) as [E|E].
      - left. destruct HW as [Hs _]. eapply sorted_epoch_inj; eauto.
      - right. congruence. }
    destruct D as [->|NE].
    + right. rewrite Ha. exact EC.
    + eapply IH; eauto.
Qed.

(* what has been collected is never lost by the rest of the loop *)
Lemma crit_keeps fuel : forall s q bound cur group groups q' gs,
  crit fuel s q bound cur group groups = Some (q', gs) ->
  forall o, In o (concat groups) \/ In o group -> In o (concat gs).
Proof.
  induction fuel as [|f IH]; intros s q bound cur group groups q' gs H o Ho; cbn [crit] in H; [discriminate|].
  destruct (pull_next q) as [[[k a] q1]|]; [|discriminate].
  destruct (peek_next (S (pq_len q1)) s q1 bound) as [nk q2].
  assert (G : In o (concat (groups ++ [group ++ [aop a]]))).
  { rewrite concat_app. cbn [concat]. rewrite app_nil_r. apply in_or_app.
    destruct Ho as [Ho|Ho]; [left; exact Ho|right; apply in_or_app; left; exact Ho]. }
  destruct (opt_key_eqb nk cur).
  - eapply IH; [exact H|]. destruct Ho as [Ho|Ho]; [left; exact Ho|right; apply in_or_app; left; exact Ho].
  - destruct nk as [k'|].
    + destruct (Z.eqb (fst k') (fst cur)).
      * eapply IH; [exact H|]. left. exact G.
      * injection H as <- <-. exact G.
    + injection H as <- <-. exact G.
Qed.

(* Every entry of the queue at the start of the critical section is, at its
   end, still queued, or was cancelled, or has been fired (its op is in one of
   the groups). *)
Lemma crit_complete fuel : forall s q bound cur group groups q' gs,
  pq_wf q -> q_from q (fst cur) -> (exists a0, pq_peek q = Some (cur, a0)) ->
  crit fuel s q bound cur group groups = Some (q', gs) ->
  forall y, In y (items q) ->
    In y (items q') \/ key_cancelled s (akey (ival y)) = true \/ In (aop (ival y)) (concat gs).
Proof.
  induction fuel as [|f IH]; intros s q bound cur group groups q' gs HW HQ [a0 HP] H y Hy; cbn [crit] in H; [discriminate|].
  destruct (pull_next q) as [[[k a] q1]|] eqn:EPN; [|discriminate].
  pose proof EPN as EPN'. apply pull_next_spec in EPN'. destruct EPN' as [EPK Hq1]. rewrite HP in EPK. injection EPK as <- <-.
  assert (PP : per_pos a0).
  { apply pq_peek_spec in HP. destruct HP as [m (Hm & _ & Ha & _)]. destruct (HQ m Hm) as [_ P]. subst. auto. }
  destruct (pull_next_wf _ _ _ _ HW PP EPN) as (W1 & _).
  (* what the pull did to y *)
  assert (Y1 : In y (items q1) \/ ival y = a0).
  { unfold pull_next in EPN. destruct (pq_pull q) as [[[k0 a1]|] q0] eqn:EL; [|discriminate].
    destruct (pq_pull_removes _ _ _ _ HW EL) as (m & Hm & Hk & Ha & Hrest).
    injection EPN as <- <- <-.
    assert (D : {y = m} + {y <> m}).
    { destruct (N.eq_dec (iepoch y) (iepoch m)) as [E|E].
      - left. destruct HW as [Hs _]. eapply sorted_epoch_inj; eauto.
      - right. congruence. }
    destruct D as [->|NE]; [right; exact Ha|left].
    destruct (aperiod a1); [unfold pq_insert; cbn [items]; apply in_or_app; left|]; apply Hrest; auto. }
  destruct (peek_next (S (pq_len q1)) s q1 bound) as [nk q2] eqn:EN.
  destruct (peek_next_wf _ _ _ _ _ _ W1 EN) as (W2 & _).
  assert (HQ1 : q_from q1 (fst cur)).
  { intros z Hz. destruct (Hq1 z Hz) as [Hz'|[p (EA & EK & EV)]]; [apply HQ; auto|].
    rewrite EK, EV. cbn [fst]. unfold per_pos in PP. rewrite EA in PP. split; [lia|]. unfold per_pos. rewrite EA. exact PP. }
  pose proof (peek_next_spec _ _ _ _ _ _ EN) as (Hsub & _ & _).
  assert (HQ2 : q_from q2 (fst cur)) by (intros z Hz; apply HQ1, Hsub; auto).
  destruct (opt_key_eqb nk cur) eqn:EK.
  - destruct nk as [k'|]; [|discriminate]. cbn in EK. apply key_eqb_iff in EK. subst k'.
    destruct (peek_next_head _ _ _ _ _ _ EN) as [a1 (H1 & _)].
    destruct Y1 as [Y1|Y1].
    + destruct (peek_next_discards _ _ _ _ _ _ W1 EN y Y1) as [Y2|Y2]; [|auto].
      eapply IH; eauto.
    + right. right. rewrite Y1.
      (* aop a0 was appended to the group, which is kept by the recursive call *)
      pose proof (crit_keeps f s q2 bound cur (group ++ [aop a0]) groups q' gs H (aop a0)) as K.
      apply K. right. apply in_or_app. right. left. reflexivity.
  - assert (G0 : In (aop a0) (concat (groups ++ [group ++ [aop a0]]))).
    { rewrite concat_app. apply in_or_app. right. cbn [concat]. rewrite app_nil_r. apply in_or_app. right. left. reflexivity. }
    destruct nk as [k'|].
    + destruct (Z.eqb_spec (fst k') (fst cur)) as [E|E].
      * destruct (peek_next_head _ _ _ _ _ _ EN) as [a1 (H1 & _)].
        destruct Y1 as [Y1|Y1].
        -- destruct (peek_next_discards _ _ _ _ _ _ W1 EN y Y1) as [Y2|Y2]; [|auto].
           eapply IH; [exact W2|rewrite E; exact HQ2|eexists; exact H1|exact H|exact Y2].
        -- right. right. rewrite Y1.
           apply (crit_keeps f s q2 bound k' [] (groups ++ [group ++ [aop a0]]) q' gs H (aop a0)). left. exact G0.
      * injection H as <- <-. destruct Y1 as [Y1|Y1].
        -- destruct (peek_next_discards _ _ _ _ _ _ W1 EN y Y1) as [Y2|Y2]; auto.
        -- right. right. rewrite Y1. exact G0.
    + injection H as <- <-. destruct Y1 as [Y1|Y1].
      * destruct (peek_next_discards _ _ _ _ _ _ W1 EN y Y1) as [Y2|Y2]; auto.
      * right. right. rewrite Y1. exact G0.
Qed.
