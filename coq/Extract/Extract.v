(* Extraction of the executable models to OCaml.  Only ExtrOcamlBasic is used
   (bool, option, list, prod, unit, sumbool -> OCaml's); nat, positive, N and Z
   stay the Coq inductive types.  No Extract Constant / Extract Inductive
   directives of our own. *)
Require Extraction.
Require Import ExtrOcamlBasic.
Require Import NX.Base.Prelude NX.Model.PQ NX.Model.Sink NX.Model.IPQ NX.Model.Sim NX.Model.Queue NX.Model.SeqLock NX.Model.TaskSM NX.Model.TaskInv NX.Model.TaskTrace NX.Model.CachedRw NX.Model.WMem NX.Model.QueueConc NX.Model.Broadcast NX.Model.TaskSetConc NX.Model.Pool NX.gen.PoolProg NX.Model.Injector NX.Model.Chan NX.gen.ChanProg NX.Model.StRun NX.gen.StRunProg NX.Model.Slot NX.gen.SlotProg NX.Model.Conf NX.Model.SeqFut NX.gen.SeqFutProg.
Extraction Language OCaml.
Set Extraction KeepSingleton.

Definition x_pq_run (ops : list (pq_op Z)) := pq_run pq_empty ops.
Definition x_ebuf_run (cap : nat) (o : bool) (ops : list (sink_op Z)) := ebuf_run (ebuf_new cap o) ops.
Definition x_eslot_run (o : bool) (ops : list (sink_op Z)) := eslot_run (eslot_new o) ops.

Definition x_ipq_run (ops : list (ipq_op Z)) := ipq_run (ipq_empty, []) ops.

Definition x_q_run (cap : nat) (ops : list (qop Z)) := q_run (queue_new cap) ops.

Definition x_sl_run (v0 : tval) (vals : list tval) (n : nat) (sched : list nat) := sl_outputs (sl_run (sl_init v0 vals n) sched).

Definition x_ts_check (forget : bool) (ops : list top) := first_bad (if forget then init_forget else init_spawn) ops 0.

Definition x_crw_run (ops : list crw_op) := crw_run (crw_new []) ops.

Definition x_ts_trace (forget : bool) (ops : list top) := ts_trace (if forget then init_forget else init_spawn) ops.

Definition x_cq_closed (s : QueueConc.cstate Z) : bool := QueueConc.closed s.
Definition x_cq_log (s : QueueConc.cstate Z) : list Z := QueueConc.log s.

Definition x_p_msg (s : pstate) : Z := pmsg s.
Definition x_p_net (s : pstate) : Z := pnet s.
Definition x_p_inj (s : pstate) : nat := pinj s.
Definition x_p_panic (s : pstate) : nat := ppanic s.
Definition x_p_main (s : pstate) : nat :=
  match pmain s with MIdle => 0 | MAct _ => 1 | MUnpark _ => 2 | MLoop => 3 | MPark => 4 | MRead => 5 end.
Definition x_p_cnts (s : pstate) : list Z := map wcnt (pws s).
Definition x_p_acts (s : pstate) : list bool := map wact (pws s).

Definition x_c_occ (s : cstate) : nat := cocc s.
Definition x_c_cap (s : cstate) : nat := ccap s.
Definition x_c_avail (s : cstate) : nat := cavail s.
Definition x_c_senders (s : cstate) : list (nat * (bool * bool)) :=
  map (fun v => (match spc_ v with SIdle => 0 | SPoll => 1 | SCheck1 => 2 | SIns => 3 | SCheck2 => 4 | SCancel => 5
                                  | SSleep => 6 | SPost _ => 7 end, (sin v, swk v))) (csnd s).
Definition x_c_recv (s : cstate) : nat :=
  match rpc_ s with RCheck1 => 0 | RReg => 1 | RCheck2 => 2 | RSleep => 3 | RGot _ => 4 | RHandle => 5 end.

Extraction "../ocaml/gen/nxmodel.ml" x_pq_run x_ebuf_run x_eslot_run x_ipq_run sim_exec x_q_run x_sl_run x_ts_check x_crw_run x_ts_trace wm_init wm_step wm_run wm_outputs cq_init cq_step x_cq_closed x_cq_log b_init b_run tk_init tk_step p_init p_step p_bad barrier_gen barrier_fixed barrier_pinned x_p_msg x_p_net x_p_inj x_p_panic x_p_main x_p_cnts x_p_acts inj_new inj_run c_init c_step c_bad chan_gen chan_fixed x_c_occ x_c_cap x_c_avail x_c_senders x_c_recv sr_check strun_gen os_init os_step os_ok slot_gen conf_case pool_exec bench_react bench_plain sq_polls sq_check sq_init sum_list seqfut_gen.
