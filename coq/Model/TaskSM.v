(* Model of the task state machine of executor/task.rs and task/*.rs
   (Runnable, Waker, CancelToken, Promise) for ONE task, any number of wakers
   and threads, under sequentially consistent interleaving.

   Granularity: each handle operation is its read-modify-write on the state
   word together with the effects that depend only on the value it read (drop
   of the future/output, deallocation), except Runnable::run and the
   wind-down free path of CancelToken::cancel, which are split at every
   read-modify-write (see the phases).  The state word is kept decoded
   (wake count, reference count, CLOSED, POLLING); its bit layout is tied to the
   source by gen/Consts.v (Proofs/TaskLayout.v).  Ghost fields count live
   handles and release events. *)
Require Import NX.Base.Prelude.

Inductive core := CFuture | COutput | CEmpty.

Inductive rphase :=
  | RIdle
  | RLoaded (wc : nat) (c : bool)   (* state loaded (or re-read by fetch_sub): wake count, CLOSED snapshot *)
  | RInPoll (wc : nat)              (* inside Future::poll *)
  | RReadyStored                    (* future dropped, output stored; before the fetch_update *)
  | RReadyFail                      (* fetch_update refused (closed or no reference): output dropped; before fetch_and *)
  | RCancelDrop.                    (* cancel path / poll panicked: future dropped; before the closing fetch_update *)

Record ts := {
  wake : nat; refs : nat; closed : bool; polling : bool;
  tcore : core; alloc : bool;
  wakers : nat; token : bool; promise : bool;
  queued : nat; runner : rphase; cdrop : bool;   (* canceller between its RMW and the drop of the future *)
  futdrops : nat; outdrops : nat; deallocs : nat;
  badpoll : nat; badrun : nat; badfree : nat
}.

Definition init_spawn : ts :=
  {| wake := 1; refs := 2; closed := false; polling := true; tcore := CFuture; alloc := true;
     wakers := 0; token := true; promise := true; queued := 1; runner := RIdle; cdrop := false;
     futdrops := 0; outdrops := 0; deallocs := 0; badpoll := 0; badrun := 0; badfree := 0 |}.
Definition init_forget : ts :=
  {| wake := 1; refs := 1; closed := false; polling := true; tcore := CFuture; alloc := true;
     wakers := 0; token := true; promise := false; queued := 1; runner := RIdle; cdrop := false;
     futdrops := 0; outdrops := 0; deallocs := 0; badpoll := 0; badrun := 0; badfree := 0 |}.

Definition runnable_exists (s : ts) : bool := polling s && (negb (Nat.eqb (wake s) 0) || closed s).

(* release helpers: each counts an access to freed memory / a double release *)
Definition drop_future (s : ts) : ts :=
  {| wake := wake s; refs := refs s; closed := closed s; polling := polling s;
     tcore := CEmpty; alloc := alloc s; wakers := wakers s; token := token s; promise := promise s;
     queued := queued s; runner := runner s; cdrop := cdrop s;
     futdrops := S (futdrops s); outdrops := outdrops s; deallocs := deallocs s;
     badpoll := badpoll s; badrun := badrun s;
     badfree := badfree s + (match tcore s with CFuture => 0 | _ => 1 end) + (if alloc s then 0 else 1) |}.
Definition drop_output (s : ts) : ts :=
  {| wake := wake s; refs := refs s; closed := closed s; polling := polling s;
     tcore := CEmpty; alloc := alloc s; wakers := wakers s; token := token s; promise := promise s;
     queued := queued s; runner := runner s; cdrop := cdrop s;
     futdrops := futdrops s; outdrops := S (outdrops s); deallocs := deallocs s;
     badpoll := badpoll s; badrun := badrun s;
     badfree := badfree s + (match tcore s with COutput => 0 | _ => 1 end) + (if alloc s then 0 else 1) |}.
Definition dealloc (s : ts) : ts :=
  {| wake := wake s; refs := refs s; closed := closed s; polling := polling s;
     tcore := tcore s; alloc := false; wakers := wakers s; token := token s; promise := promise s;
     queued := queued s; runner := runner s; cdrop := cdrop s;
     futdrops := futdrops s; outdrops := outdrops s; deallocs := S (deallocs s);
     badpoll := badpoll s; badrun := badrun s;
     badfree := badfree s + (if alloc s then 0 else 1) |}.

Definition upd (s : ts) (w r : nat) (c p : bool) : ts :=
  {| wake := w; refs := r; closed := c; polling := p;
     tcore := tcore s; alloc := alloc s; wakers := wakers s; token := token s; promise := promise s;
     queued := queued s; runner := runner s; cdrop := cdrop s;
     futdrops := futdrops s; outdrops := outdrops s; deallocs := deallocs s;
     badpoll := badpoll s; badrun := badrun s;
     badfree := badfree s + (if alloc s then 0 else 1) |}.
Definition set_handles (s : ts) (wk : nat) (tk pr : bool) : ts :=
  {| wake := wake s; refs := refs s; closed := closed s; polling := polling s;
     tcore := tcore s; alloc := alloc s; wakers := wk; token := tk; promise := pr;
     queued := queued s; runner := runner s; cdrop := cdrop s;
     futdrops := futdrops s; outdrops := outdrops s; deallocs := deallocs s;
     badpoll := badpoll s; badrun := badrun s; badfree := badfree s |}.
Definition set_run (s : ts) (q : nat) (r : rphase) (cd : bool) : ts :=
  {| wake := wake s; refs := refs s; closed := closed s; polling := polling s;
     tcore := tcore s; alloc := alloc s; wakers := wakers s; token := token s; promise := promise s;
     queued := q; runner := r; cdrop := cd;
     futdrops := futdrops s; outdrops := outdrops s; deallocs := deallocs s;
     badpoll := badpoll s; badrun := badrun s; badfree := badfree s |}.
Definition bump_badpoll (s : ts) : ts :=
  {| wake := wake s; refs := refs s; closed := closed s; polling := polling s;
     tcore := tcore s; alloc := alloc s; wakers := wakers s; token := token s; promise := promise s;
     queued := queued s; runner := runner s; cdrop := cdrop s;
     futdrops := futdrops s; outdrops := outdrops s; deallocs := deallocs s;
     badpoll := S (badpoll s); badrun := badrun s; badfree := badfree s |}.
Definition bump_badrun (s : ts) : ts :=
  {| wake := wake s; refs := refs s; closed := closed s; polling := polling s;
     tcore := tcore s; alloc := alloc s; wakers := wakers s; token := token s; promise := promise s;
     queued := queued s; runner := runner s; cdrop := cdrop s;
     futdrops := futdrops s; outdrops := outdrops s; deallocs := deallocs s;
     badpoll := badpoll s; badrun := S (badrun s); badfree := badfree s |}.

(* Task::wake: fetch_add(delta); schedule a Runnable iff the old state was
   "polling, not closed, wake count 0" *)
Definition wake_rmw (s : ts) (dref : nat) : ts :=
  let sched := polling s && negb (closed s) && Nat.eqb (wake s) 0 in
  let s1 := upd s (S (wake s)) (refs s - dref) (closed s) (polling s) in
  if sched then set_run s1 (S (queued s1)) (runner s1) (cdrop s1) else s1.

(* the common "last reference" epilogue of drop_waker / CancelToken::drop /
   Promise::drop, evaluated on the OLD state [o] *)
Definition last_ref_release (o s1 : ts) : ts :=
  if Nat.eqb (refs o) 1 && negb (runnable_exists o) then
    let s2 := if polling o then drop_future s1 else if closed o then s1 else drop_output s1 in
    dealloc s2
  else s1.

Inductive top :=
  | TClone | TWakeRef | TWakeVal | TDropWaker
  | TTokenDrop | TTokenCancel | TCancelFinish
  | TPromisePoll | TPromiseDrop
  | TRunStart | TRunBegin | TPollPending | TPollReady | TPollPanic
  | TReadyUpdate | TReadyFinish | TCancelClose | TRunnableDrop.

Definition has_waker (s : ts) : bool :=
  negb (Nat.eqb (wakers s) 0) || match runner s with RInPoll _ => true | _ => false end.

Definition ts_step (s : ts) (o : top) : option ts :=
  match o with
  | TClone =>
      if has_waker s then
        let s1 := upd s (wake s) (S (refs s)) (closed s) (polling s) in
        Some (set_handles s1 (S (wakers s1)) (token s1) (promise s1))
      else None
  | TWakeRef => if has_waker s then Some (wake_rmw s 0) else None
  | TWakeVal =>
      if negb (Nat.eqb (wakers s) 0) then
        let s1 := wake_rmw s 1 in
        let s2 := set_handles s1 (wakers s1 - 1) (token s1) (promise s1) in
        (* old state: last reference and not polling -> free (and drop the output if present) *)
        if Nat.eqb (refs s) 1 && negb (polling s) then
          Some (dealloc (if closed s then s2 else drop_output s2))
        else Some s2
      else None
  | TDropWaker =>
      if negb (Nat.eqb (wakers s) 0) then
        let s1 := upd s (wake s) (refs s - 1) (closed s) (polling s) in
        Some (last_ref_release s (set_handles s1 (wakers s1 - 1) (token s1) (promise s1)))
      else None
  | TTokenDrop =>
      if token s then
        let s1 := upd s (wake s) (refs s - 1) (closed s) (polling s) in
        Some (last_ref_release s (set_handles s1 (wakers s1) false (promise s1)))
      else None
  | TPromiseDrop =>
      if promise s then
        let s1 := upd s (wake s) (refs s - 1) (closed s) (polling s) in
        Some (last_ref_release s (set_handles s1 (wakers s1) (token s1) false))
      else None
  | TPromisePoll =>
      if promise s then
        if negb (polling s) && negb (closed s) then
          Some (drop_output (upd s (wake s) (refs s) true false))      (* Ready: the output is moved out *)
        else Some s
      else None
  | TTokenCancel =>
      if token s then
        let s0 := set_handles s (wakers s) false (promise s) in
        if negb (polling s) then
          let s1 := upd s0 (wake s) (refs s - 1) (closed s) false in
          if Nat.eqb (refs s) 1 then Some (dealloc (if closed s then s1 else drop_output s1)) else Some s1
        else if runnable_exists s then
          Some (upd s0 (wake s) (refs s - 1) true true)
        else
          (* idle task: close it, keep the reference until the future is dropped *)
          Some (set_run (upd s0 (wake s) (refs s) true false) (queued s0) (runner s0) true)
      else None
  | TCancelFinish =>
      if cdrop s then
        let s1 := drop_future s in
        let s2 := upd s1 (wake s1) (refs s1 - 1) (closed s1) (polling s1) in
        let s3 := set_run s2 (queued s2) (runner s2) false in
        Some (if Nat.eqb (refs s) 1 then dealloc s3 else s3)
      else None
  | TRunStart =>
      if negb (Nat.eqb (queued s) 0) then
        match runner s with
        | RIdle => Some (set_run s (queued s - 1) (RLoaded (wake s) (closed s)) (cdrop s))
        | _ => Some (bump_badrun (set_run s (queued s - 1) (runner s) (cdrop s)))
        end
      else None
  | TRunnableDrop =>
      if negb (Nat.eqb (queued s) 0) then
        match runner s with
        | RIdle => Some (set_run (drop_future s) (queued s - 1) RCancelDrop (cdrop s))
        | _ => Some (bump_badrun (set_run s (queued s - 1) (runner s) (cdrop s)))
        end
      else None
  | TRunBegin =>
      match runner s with
      | RLoaded wc c =>
          if c then Some (set_run (drop_future s) (queued s) RCancelDrop (cdrop s))
          else
            let s1 := match tcore s, alloc s with CFuture, true => s | _, _ => bump_badpoll s end in
            Some (set_run s1 (queued s1) (RInPoll wc) (cdrop s1))
      | _ => None
      end
  | TPollPending =>
      match runner s with
      | RInPoll wc =>
          let nwc := wake s - wc in
          let s1 := upd s nwc (refs s) (closed s) (polling s) in
          if Nat.eqb nwc 0 && negb (closed s) then
            let s2 := set_run s1 (queued s1) RIdle (cdrop s1) in
            if Nat.eqb (refs s) 0 then Some (dealloc (drop_future s2)) else Some s2
          else Some (set_run s1 (queued s1) (RLoaded nwc (closed s)) (cdrop s1))
      | _ => None
      end
  | TPollReady =>
      match runner s with
      | RInPoll _ =>
          let s1 := drop_future s in
          Some (set_run {| wake := wake s1; refs := refs s1; closed := closed s1; polling := polling s1;
                           tcore := COutput; alloc := alloc s1; wakers := wakers s1; token := token s1; promise := promise s1;
                           queued := queued s1; runner := runner s1; cdrop := cdrop s1;
                           futdrops := futdrops s1; outdrops := outdrops s1; deallocs := deallocs s1;
                           badpoll := badpoll s1; badrun := badrun s1; badfree := badfree s1 |}
                        (queued s1) RReadyStored (cdrop s1))
      | _ => None
      end
  | TPollPanic =>
      match runner s with
      | RInPoll _ => Some (set_run (drop_future s) (queued s) RCancelDrop (cdrop s))
      | _ => None
      end
  | TReadyUpdate =>
      match runner s with
      | RReadyStored =>
          if closed s || Nat.eqb (refs s) 0 then Some (set_run (drop_output s) (queued s) RReadyFail (cdrop s))
          else Some (set_run (upd s (wake s) (refs s) (closed s) false) (queued s) RIdle (cdrop s))
      | _ => None
      end
  | TReadyFinish =>
      match runner s with
      | RReadyFail =>
          let s1 := set_run (upd s (wake s) (refs s) (closed s) false) (queued s) RIdle (cdrop s) in
          Some (if Nat.eqb (refs s) 0 then dealloc s1 else s1)
      | _ => None
      end
  | TCancelClose =>
      match runner s with
      | RCancelDrop =>
          let s1 := set_run (upd s (wake s) (refs s) true false) (queued s) RIdle (cdrop s) in
          Some (if Nat.eqb (refs s) 0 then dealloc s1 else s1)
      | _ => None
      end
  end.

Fixpoint ts_run (s : ts) (ops : list top) : ts :=
  match ops with
  | [] => s
  | o :: r => match ts_step s o with Some s' => ts_run s' r | None => ts_run s r end
  end.
