(* Specification of the keyed queue (util/indexed_priority_queue.rs): the list-with-epochs
   model of Model/PQ.v (which Proofs/PQProofs.v proves equal to "first entry among those with
   the least key") extended with removal through the key of the n-th insertion.  The key of the
   n-th insertion designates the entry that insertion created and nothing else: it carries the
   insertion's number as its epoch, and extraction removes the entry with exactly that epoch. *)
Require Import NX.Base.Prelude NX.Model.PQ NX.Model.IPQ.

Section Spec.
  Variable V : Type.

  Definition a_extract (a : pq V) (n : nat) : option (key * V) * pq V :=
    match find (fun x => N.eqb (iepoch x) (N.of_nat n)) (items a) with
    | Some x => (Some (PQ.ikey x, ival x),
                 {| items := remove_epoch (iepoch x) (items a); next_epoch := next_epoch a |})
    | None => (None, a)
    end.

  Definition a_step (a : pq V) (o : ipq_op V) : pq V * ipq_res V :=
    match o with
    | IInsert k v => (pq_insert a k v, IRUnit)
    | IPull => let '(r, a') := pq_pull a in (a', ires_of V r)
    | IPeek => (a, ires_of V (pq_peek a))
    | IPeekKey => (a, match pq_peek a with Some (k, _) => IRKey k | None => IRNone end)
    | IExtract n => let '(r, a') := a_extract a n in (a', ires_of V r)
    | ILen => (a, IRLen (pq_len a))
    end.

  Fixpoint a_run (a : pq V) (ops : list (ipq_op V)) : list (ipq_res V) :=
    match ops with
    | [] => []
    | o :: r => let '(a', x) := a_step a o in x :: a_run a' r
    end.
End Spec.
Arguments a_extract {V}. Arguments a_step {V}. Arguments a_run {V}.
