(* Model of ExecutorInner::run of the single-threaded executor (executor/st_executor.rs) with respect to the
   two thread-locals it shares with an ENCLOSING executor when simulations are nested on one thread:
   channel::THREAD_MSG_COUNT (in-flight messages) and simulation::CURRENT_MODEL_ID (the model being polled).
   The body of `run` is a PROGRAM generated from the source by tools/gen_strun.py (gen/StRunProg.v); what the
   task loop does to the thread-locals is an arbitrary effect: it adds `d` to the thread's count and either
   completes (CURRENT_MODEL_ID is left cleared by the last poll) or is cut short by a panic of model `m`
   (CURRENT_MODEL_ID = m).  Nested runs inside the loop are instances of the same specification. *)
Require Import NX.Base.Prelude.

Inductive sr_op :=
  | SStashCount        (* let msg_count_stash = THREAD_MSG_COUNT.replace(self.context.msg_count) *)
  | SStashId           (* let model_id_stash = CURRENT_MODEL_ID.take() *)
  | SLoop              (* let result = ... catch_unwind(loop { pop; task.run() }) *)
  | SRestoreCount      (* self.context.msg_count = THREAD_MSG_COUNT.replace(msg_count_stash) *)
  | SRestoreId         (* let model_id = CURRENT_MODEL_ID.replace(model_id_stash) *)
  | STakeId            (* let model_id = CURRENT_MODEL_ID.take() *)
  | SRetIfPanic (inner : list sr_op)   (* if let Err(payload) = result { inner; return Err(Panic(model_id, payload)) } *)
  | SRetIfCount        (* if self.context.msg_count != 0 { return Err(UnprocessedMessages(..)) } *)
  | SRetMapPanic       (* result.map_err(|payload| Panic(model_id, payload)) as the final expression *)
  | SRetOk.            (* Ok(()) *)

Inductive sr_result := SROk | SRPanic (model : option nat) | SRUnprocessed (n : Z).

Record sr_state := {
  tl_count : Z;                 (* THREAD_MSG_COUNT *)
  tl_id : option nat;           (* CURRENT_MODEL_ID *)
  ctx_count : Z;                (* self.context.msg_count *)
  stash_count : Z;              (* local msg_count_stash *)
  stash_id : option nat;        (* local model_id_stash *)
  loc_id : option nat;          (* local model_id *)
  panicked : bool               (* result is Err(payload) *)
}.

Definition sr_simple (d : Z) (p : option nat) (s : sr_state) (o : sr_op) : sr_state :=
  match o with
  | SStashCount => {| tl_count := ctx_count s; tl_id := tl_id s; ctx_count := ctx_count s; stash_count := tl_count s;
                      stash_id := stash_id s; loc_id := loc_id s; panicked := panicked s |}
  | SStashId => {| tl_count := tl_count s; tl_id := None; ctx_count := ctx_count s; stash_count := stash_count s;
                   stash_id := tl_id s; loc_id := loc_id s; panicked := panicked s |}
  | SLoop => {| tl_count := tl_count s + d; tl_id := p; ctx_count := ctx_count s; stash_count := stash_count s;
                stash_id := stash_id s; loc_id := loc_id s; panicked := match p with Some _ => true | None => false end |}
  | SRestoreCount => {| tl_count := stash_count s; tl_id := tl_id s; ctx_count := tl_count s; stash_count := stash_count s;
                        stash_id := stash_id s; loc_id := loc_id s; panicked := panicked s |}
  | SRestoreId => {| tl_count := tl_count s; tl_id := stash_id s; ctx_count := ctx_count s; stash_count := stash_count s;
                     stash_id := stash_id s; loc_id := tl_id s; panicked := panicked s |}
  | STakeId => {| tl_count := tl_count s; tl_id := None; ctx_count := ctx_count s; stash_count := stash_count s;
                  stash_id := stash_id s; loc_id := tl_id s; panicked := panicked s |}
  | _ => s
  end.

Fixpoint sr_simples (d : Z) (p : option nat) (s : sr_state) (l : list sr_op) : sr_state :=
  match l with [] => s | o :: r => sr_simples d p (sr_simple d p s o) r end.

(* runs the program to its return: final state and result (None: fell off the end without a return) *)
Fixpoint sr_exec (d : Z) (p : option nat) (s : sr_state) (prog : list sr_op) : sr_state * option sr_result :=
  match prog with
  | [] => (s, None)
  | SRetIfPanic inner :: r =>
      if panicked s then let s' := sr_simples d p s inner in (s', Some (SRPanic (loc_id s')))
      else sr_exec d p s r
  | SRetIfCount :: r =>
      if Z.eqb (ctx_count s) 0 then sr_exec d p s r else (s, Some (SRUnprocessed (ctx_count s)))
  | SRetMapPanic :: _ => (s, Some (if panicked s then SRPanic (loc_id s) else SROk))
  | SRetOk :: _ => (s, Some SROk)
  | o :: r => sr_exec d p (sr_simple d p s o) r
  end.

Definition sr_init (c0 : Z) (i0 : option nat) (own : Z) : sr_state :=
  {| tl_count := c0; tl_id := i0; ctx_count := own; stash_count := 0; stash_id := None; loc_id := None; panicked := false |}.

(* what a run must do: leave the thread-locals of the enclosing executor as it found them, keep its own count,
   and classify the outcome - a panic first (naming the panicking model), then unprocessed messages *)
Definition sr_spec (prog : list sr_op) : Prop :=
  forall c0 i0 own d p,
    let '(s, r) := sr_exec d p (sr_init c0 i0 own) prog in
    tl_count s = c0 /\ tl_id s = i0 /\
    r = Some (match p with
              | Some m => SRPanic (Some m)
              | None => if Z.eqb (own + d) 0 then SROk else SRUnprocessed (own + d)
              end) /\
    (p = None -> ctx_count s = (own + d)%Z).

Definition strun_fixed : list sr_op :=
  [SStashCount; SStashId; SLoop; SRestoreCount; SRestoreId; SRetIfPanic []; SRetIfCount; SRetOk].
(* the pinned tree: the count is restored after the panic check only, the ID is never restored *)
Definition strun_pinned : list sr_op :=
  [SStashCount; SLoop; SRetIfPanic [STakeId]; SRestoreCount; SRetIfCount; SRetOk].

(* executable check used to look for a failing input when the obligation breaks *)
Definition sr_check (prog : list sr_op) (c0 : Z) (i0 : option nat) (own d : Z) (p : option nat) : bool :=
  let '(s, r) := sr_exec d p (sr_init c0 i0 own) prog in
  Z.eqb (tl_count s) c0 &&
  match tl_id s, i0 with Some a, Some b => Nat.eqb a b | None, None => true | _, _ => false end &&
  match r, p with
  | Some (SRPanic (Some a)), Some m => Nat.eqb a m
  | Some SROk, None => Z.eqb (own + d) 0
  | Some (SRUnprocessed n), None => negb (Z.eqb (own + d) 0) && Z.eqb n (own + d)
  | _, _ => false
  end.
