(* Model of util/slot.rs (the one-shot slot that carries the reply of process_query and of query sources):
   one SlotWriter (write once, or drop) and one SlotReader (try_read any number of times, then drop), at the
   granularity of one shared access per step, under sequential consistency.  The state word has two bits,
   CLOSED and POPULATED; the constants and the mask written by `write` are generated from the source
   (gen/SlotProg.v).  The model is finite: the theorems are proved by computing the set of reachable states
   and checking that it is closed under every step. *)
Require Import NX.Base.Prelude NX.Base.ListX.

Inductive vstat := VUninit | VInit | VMoved | VDropped.

Inductive swpc :=
  | W0                      (* the writer exists and has done nothing *)
  | WW1                     (* write: value stored, fetch_or next *)
  | WW2                     (* write: the reader was gone: drop the value in place *)
  | WW3                     (* write: deallocate *)
  | WD1                     (* drop: state loaded, CLOSED not set: fetch_or next *)
  | WD3                     (* drop: deallocate *)
  | WDone.

Inductive srpc :=
  | R0                      (* the reader exists, no call in progress *)
  | RT2                     (* try_read: POPULATED seen: store CLOSED next *)
  | RT3                     (* try_read: read the value *)
  | RD1                     (* drop: state loaded, CLOSED not set: fetch_or next *)
  | RD2 (populated : bool)  (* drop: both gone: drop the value if populated *)
  | RD3                     (* drop: deallocate *)
  | RDone.

Record slot_consts := { k_closed : nat; k_populated : nat; k_wmask : nat }.

Record sstate := {
  sst : nat;                (* the state word, 0..3 *)
  sval : vstat;
  sbox : bool;              (* allocated *)
  swp : swpc;
  srp : srpc;
  sgot : bool;              (* ghost: try_read returned the value *)
  sbad : bool               (* ghost: access after free, double free, drop / read of a value that is not there *)
}.

Definition os_init : sstate :=
  {| sst := 0; sval := VUninit; sbox := true; swp := W0; srp := R0; sgot := false; sbad := false |}.

Definition os_bit (w k : nat) : bool := negb (Nat.eqb (Nat.land w k) 0).

Inductive slabel := SLWrite | SLWDrop | SLW | SLTry | SLRDrop | SLR.

Definition os_mk (st : nat) (v : vstat) (b : bool) (w : swpc) (r : srpc) (g bad : bool) : sstate :=
  {| sst := st; sval := v; sbox := b; swp := w; srp := r; sgot := g; sbad := bad |}.

(* every access to the allocation requires it to be os_live *)
Definition os_live (s : sstate) : bool := sbox s.

Definition os_step (K : slot_consts) (s : sstate) (l : slabel) : option sstate :=
  let dead := negb (os_live s) in
  match l with
  | SLWrite =>
      match swp s with
      | W0 => Some (os_mk (sst s) VInit (sbox s) WW1 (srp s) (sgot s)
                       (sbad s || dead || match sval s with VUninit => false | _ => true end))
      | _ => None
      end
  | SLWDrop =>
      match swp s with
      | W0 => if os_bit (sst s) (k_closed K)
              then Some (os_mk (sst s) (sval s) (sbox s) WD3 (srp s) (sgot s) (sbad s || dead))
              else Some (os_mk (sst s) (sval s) (sbox s) WD1 (srp s) (sgot s) (sbad s || dead))
      | _ => None
      end
  | SLW =>
      match swp s with
      | WW1 => let old := sst s in
               Some (os_mk (Nat.lor old (k_wmask K)) (sval s) (sbox s)
                        (if os_bit old (k_closed K) then WW2 else WDone) (srp s) (sgot s) (sbad s || dead))
      | WW2 => Some (os_mk (sst s) VDropped (sbox s) WW3 (srp s) (sgot s)
                        (sbad s || dead || match sval s with VInit => false | _ => true end))
      | WW3 => Some (os_mk (sst s) (sval s) false WDone (srp s) (sgot s) (sbad s || dead))
      | WD1 => let old := sst s in
               Some (os_mk (Nat.lor old (k_closed K)) (sval s) (sbox s)
                        (if os_bit old (k_closed K) then WD3 else WDone) (srp s) (sgot s) (sbad s || dead))
      | WD3 => Some (os_mk (sst s) (sval s) false WDone (srp s) (sgot s) (sbad s || dead))
      | _ => None
      end
  | SLTry =>
      match srp s with
      | R0 => if Nat.eqb (sst s) 0 then Some (os_mk (sst s) (sval s) (sbox s) (swp s) R0 (sgot s) (sbad s || dead))
              else if os_bit (sst s) (k_populated K)
              then Some (os_mk (sst s) (sval s) (sbox s) (swp s) RT2 (sgot s) (sbad s || dead))
              else Some (os_mk (sst s) (sval s) (sbox s) (swp s) R0 (sgot s) (sbad s || dead))
      | _ => None
      end
  | SLRDrop =>
      match srp s with
      | R0 => if os_bit (sst s) (k_closed K)
              then Some (os_mk (sst s) (sval s) (sbox s) (swp s) (RD2 (os_bit (sst s) (k_populated K))) (sgot s) (sbad s || dead))
              else Some (os_mk (sst s) (sval s) (sbox s) (swp s) RD1 (sgot s) (sbad s || dead))
      | _ => None
      end
  | SLR =>
      match srp s with
      | RT2 => Some (os_mk (k_closed K) (sval s) (sbox s) (swp s) RT3 (sgot s) (sbad s || dead))
      | RT3 => Some (os_mk (sst s) VMoved (sbox s) (swp s) R0 true
                        (sbad s || dead || sgot s || match sval s with VInit => false | _ => true end))
      | RD1 => let old := sst s in
               Some (os_mk (Nat.lor old (k_closed K)) (sval s) (sbox s) (swp s)
                        (if os_bit old (k_closed K) then RD2 (os_bit old (k_populated K)) else RDone) (sgot s) (sbad s || dead))
      | RD2 true => Some (os_mk (sst s) VDropped (sbox s) (swp s) RD3 (sgot s)
                             (sbad s || dead || match sval s with VInit => false | _ => true end))
      | RD2 false => Some (os_mk (sst s) (sval s) (sbox s) (swp s) RD3 (sgot s) (sbad s || dead))
      | RD3 => Some (os_mk (sst s) (sval s) false (swp s) RDone (sgot s) (sbad s || dead))
      | _ => None
      end
  end.

Fixpoint os_run (K : slot_consts) (s : sstate) (ls : list slabel) : sstate :=
  match ls with
  | [] => s
  | l :: r => match os_step K s l with Some s' => os_run K s' r | None => os_run K s r end
  end.

Definition os_labels : list slabel := [SLWrite; SLWDrop; SLW; SLTry; SLRDrop; SLR].

(* what must hold in every reachable state *)
Definition os_ok (s : sstate) : bool :=
  negb (sbad s) &&
  (* the value returned by try_read is the one written: it was moved out, once *)
  implb (sgot s) (match sval s with VMoved => true | _ => false end) &&
  (* when both handles are gone: the allocation is freed and the value, if one was written, was moved out or
     dropped - exactly once, since a second drop / move sets sbad *)
  match swp s, srp s with
  | WDone, RDone => negb (sbox s) && match sval s with VInit => false | _ => true end
  | _, _ => true
  end.

(* ---- finite exploration ---- *)
Definition vstat_eqb (a b : vstat) : bool :=
  match a, b with VUninit, VUninit | VInit, VInit | VMoved, VMoved | VDropped, VDropped => true | _, _ => false end.
Definition swpc_eqb (a b : swpc) : bool :=
  match a, b with W0, W0 | WW1, WW1 | WW2, WW2 | WW3, WW3 | WD1, WD1 | WD3, WD3 | WDone, WDone => true | _, _ => false end.
Definition srpc_eqb (a b : srpc) : bool :=
  match a, b with
  | R0, R0 | RT2, RT2 | RT3, RT3 | RD1, RD1 | RD3, RD3 | RDone, RDone => true
  | RD2 x, RD2 y => Bool.eqb x y
  | _, _ => false
  end.
Definition sstate_eqb (a b : sstate) : bool :=
  Nat.eqb (sst a) (sst b) && vstat_eqb (sval a) (sval b) && Bool.eqb (sbox a) (sbox b) && swpc_eqb (swp a) (swp b)
  && srpc_eqb (srp a) (srp b) && Bool.eqb (sgot a) (sgot b) && Bool.eqb (sbad a) (sbad b).

Definition os_mem (s : sstate) (l : list sstate) : bool := existsb (sstate_eqb s) l.

Definition os_succs (K : slot_consts) (s : sstate) : list sstate :=
  flat_map (fun l => match os_step K s l with Some s' => [s'] | None => [] end) os_labels.

Fixpoint os_explore (K : slot_consts) (fuel : nat) (todo seen : list sstate) : list sstate :=
  match fuel with
  | O => seen
  | S f =>
      match todo with
      | [] => seen
      | s :: r => let new := filter (fun x => negb (os_mem x seen)) (os_succs K s) in
                  let new := fold_right (fun x acc => if os_mem x acc then acc else x :: acc) [] new in
                  os_explore K f (r ++ new) (seen ++ new)
      end
  end.

Definition os_reach (K : slot_consts) : list sstate := os_explore K 2000 [os_init] [os_init].

Definition os_closed (K : slot_consts) (l : list sstate) : bool :=
  forallb (fun s => forallb (fun x => os_mem x l) (os_succs K s)) l.

Definition slot_fixed : slot_consts := {| k_closed := 1; k_populated := 2; k_wmask := 3 |}.
