(* Model of ports/sink/event_buffer.rs and ports/sink/event_slot.rs
   (single reader handle, writers called one at a time). *)
Require Import NX.Base.Prelude.

Section Sink.
  Variable V : Type.

  (* ---------------- EventBuffer ---------------- *)
  Record ebuf := { bcap : nat; bopen : bool; bq : list V }.

  Definition ebuf_new (cap : nat) (opened : bool) : ebuf :=
    {| bcap := cap; bopen := opened; bq := [] |}.

  (* EventBufferWriter::write *)
  Definition ebuf_write (b : ebuf) (v : V) : ebuf :=
    if bopen b then
      let q := if Nat.eqb (length (bq b)) (bcap b) then tl (bq b) else bq b in
      {| bcap := bcap b; bopen := true; bq := q ++ [v] |}
    else b.

  (* Iterator::next *)
  Definition ebuf_next (b : ebuf) : option V * ebuf :=
    match bq b with
    | [] => (None, b)
    | x :: r => (Some x, {| bcap := bcap b; bopen := bopen b; bq := r |})
    end.

  Definition ebuf_set_open (b : ebuf) (o : bool) : ebuf :=
    {| bcap := bcap b; bopen := o; bq := bq b |}.

  (* ---------------- EventSlot ---------------- *)
  Record eslot := { sopen : bool; sval : option V }.

  Definition eslot_new (opened : bool) : eslot := {| sopen := opened; sval := None |}.
  Definition eslot_write (s : eslot) (v : V) : eslot :=
    if sopen s then {| sopen := true; sval := Some v |} else s.
  Definition eslot_next (s : eslot) : option V * eslot :=
    (sval s, {| sopen := sopen s; sval := None |}).
  Definition eslot_set_open (s : eslot) (o : bool) : eslot :=
    {| sopen := o; sval := sval s |}.

  (* ---------------- operation sequences ---------------- *)
  Inductive sink_op := SWrite (v : V) | SRead | SOpen | SClose.

  Definition ebuf_step (b : ebuf) (o : sink_op) : ebuf * option V :=
    match o with
    | SWrite v => (ebuf_write b v, None)
    | SRead => let '(r, b') := ebuf_next b in (b', r)
    | SOpen => (ebuf_set_open b true, None)
    | SClose => (ebuf_set_open b false, None)
    end.

  Definition eslot_step (s : eslot) (o : sink_op) : eslot * option V :=
    match o with
    | SWrite v => (eslot_write s v, None)
    | SRead => let '(r, s') := eslot_next s in (s', r)
    | SOpen => (eslot_set_open s true, None)
    | SClose => (eslot_set_open s false, None)
    end.

  Fixpoint ebuf_run (b : ebuf) (ops : list sink_op) : list (option V) :=
    match ops with
    | [] => []
    | o :: r => let '(b', x) := ebuf_step b o in x :: ebuf_run b' r
    end.

  Fixpoint ebuf_exec (b : ebuf) (ops : list sink_op) : ebuf :=
    match ops with [] => b | o :: r => ebuf_exec (fst (ebuf_step b o)) r end.

  Fixpoint eslot_run (s : eslot) (ops : list sink_op) : list (option V) :=
    match ops with
    | [] => []
    | o :: r => let '(s', x) := eslot_step s o in x :: eslot_run s' r
    end.

  Fixpoint eslot_exec (s : eslot) (ops : list sink_op) : eslot :=
    match ops with [] => s | o :: r => eslot_exec (fst (eslot_step s o)) r end.

  (* ---------------- specification ----------------
     A log of accepted writes with a read cursor.  The visible content is the
     part of the log after the cursor; a write into a full window advances the
     cursor by one (the oldest unread event is discarded). *)
  Record lspec := { lcap : nat; lopen : bool; llog : list V; lcur : nat }.

  Definition lspec_new cap opened := {| lcap := cap; lopen := opened; llog := []; lcur := 0 |}.

  Definition lspec_step (s : lspec) (o : sink_op) : lspec * option V :=
    match o with
    | SWrite v =>
        if lopen s then
          let cur := if Nat.eqb (length (llog s) - lcur s) (lcap s) then S (lcur s) else lcur s in
          ({| lcap := lcap s; lopen := true; llog := llog s ++ [v]; lcur := cur |}, None)
        else (s, None)
    | SRead =>
        match nth_error (llog s) (lcur s) with
        | Some x => ({| lcap := lcap s; lopen := lopen s; llog := llog s; lcur := S (lcur s) |}, Some x)
        | None => (s, None)
        end
    | SOpen => ({| lcap := lcap s; lopen := true; llog := llog s; lcur := lcur s |}, None)
    | SClose => ({| lcap := lcap s; lopen := false; llog := llog s; lcur := lcur s |}, None)
    end.

  Fixpoint lspec_run (s : lspec) (ops : list sink_op) : list (option V) :=
    match ops with
    | [] => []
    | o :: r => let '(s', x) := lspec_step s o in x :: lspec_run s' r
    end.

  Fixpoint lspec_exec (s : lspec) (ops : list sink_op) : lspec :=
    match ops with [] => s | o :: r => lspec_exec (fst (lspec_step s o)) r end.
End Sink.

Arguments bcap {V}. Arguments bopen {V}. Arguments bq {V}.
Arguments ebuf_new {V}. Arguments ebuf_write {V}. Arguments ebuf_next {V}. Arguments ebuf_set_open {V}.
Arguments sopen {V}. Arguments sval {V}.
Arguments eslot_new {V}. Arguments eslot_write {V}. Arguments eslot_next {V}. Arguments eslot_set_open {V}.
Arguments SWrite {V}. Arguments SRead {V}. Arguments SOpen {V}. Arguments SClose {V}.
Arguments ebuf_step {V}. Arguments eslot_step {V}. Arguments ebuf_run {V}. Arguments eslot_run {V}.
Arguments ebuf_exec {V}. Arguments eslot_exec {V}.
Arguments lcap {V}. Arguments lopen {V}. Arguments llog {V}. Arguments lcur {V}.
Arguments lspec_new {V}. Arguments lspec_step {V}. Arguments lspec_run {V}. Arguments lspec_exec {V}.
