(* Concurrent model of util/task_set.rs: any number of tkwakers running Task::wake_by_ref on any
   tasks, and the single consumer (the owner of the TaskSet) running take_scheduled, iterating
   (TaskIterator::next) or dropping the iterator, under sequentially consistent interleaving at
   the granularity of ONE shared-memory access per step; compare_exchange_weak may fail
   spuriously (the choice bit of a step).

   head = (countdown, index | EMPTY); next[i] = SLEEPING | index | EMPTY.
   Ghost: woken[i] (a wake-up of task i completed since i was last yielded), the number of
   notifications, and what is needed to state the countdown law. *)
Require Import NX.Base.Prelude NX.Base.ListX.

Inductive nst := NSleep | NIdx (x : option nat).       (* None = EMPTY *)

Record waker := {
  kpc : nat;          (* 0 load next | 1 branch | 2 CAS next (claim) | 3 CAS next (no-op) | 4 CAS head | 5 swap next | 6 done *)
  kti : nat;           (* the task being woken *)
  knxt : nst; khd : nat * option nat
}.

Inductive cphase :=
  | CIdle
  | CTake (k : nat) (loaded : option (nat * option nat))   (* take_scheduled(k): after the load / between CAS attempts *)
  | CIter (it : option nat)                                (* iterating: next_index *)
  | CDrop (it : option nat) (nx : option nst).             (* dropping the iterator: after the load of next[it] *)

Record tstate := {
  thead : nat * option nat;
  tnext : list nst;
  tkwakers : list waker;
  cph : cphase;
  yielded : list nat;          (* ghost: indices yielded by the iterator, newest first *)
  woken : list bool;           (* ghost *)
  tnotif : nat;                (* ghost: calls of notifier.notify() *)
  tpanic : nat                 (* ghost: the iterator met SLEEPING (index out of bounds in the code) *)
}.

Definition tk_init (ntasks : nat) (ws : list nat) : tstate :=
  {| thead := (0, None); tnext := repeat NSleep ntasks;
     tkwakers := map (fun i => {| kpc := 0; kti := i; knxt := NSleep; khd := (0, None) |}) ws;
     cph := CIdle; yielded := []; woken := repeat false ntasks; tnotif := 0; tpanic := 0 |}.

Definition nst_eqb (a b : nst) : bool :=
  match a, b with
  | NSleep, NSleep => true
  | NIdx None, NIdx None => true
  | NIdx (Some x), NIdx (Some y) => Nat.eqb x y
  | _, _ => false
  end.
Definition hd_eqb (a b : nat * option nat) : bool :=
  Nat.eqb (fst a) (fst b) && match snd a, snd b with None, None => true | Some x, Some y => Nat.eqb x y | _, _ => false end.

Definition set_w (s : tstate) (j : nat) (w : waker) : tstate :=
  {| thead := thead s; tnext := tnext s; tkwakers := lupd (tkwakers s) j w; cph := cph s; yielded := yielded s;
     woken := woken s; tnotif := tnotif s; tpanic := tpanic s |}.
Definition mkw (pc i : nat) (nx : nst) (hd : nat * option nat) : waker := {| kpc := pc; kti := i; knxt := nx; khd := hd |}.

(* one shared-memory access of waker j (Task::wake_by_ref) *)
Definition wake_step (s : tstate) (j : nat) (w : waker) (spurious : bool) : option tstate :=
  let i := kti w in
  match kpc w with
  | 0 => Some (set_w s j (mkw 1 i (nth i (tnext s) NSleep) (khd w)))
  | 1 => match knxt w with
         | NSleep => Some (set_w s j (mkw 2 i (knxt w) (thead s)))          (* load head *)
         | _ => Some (set_w s j (mkw 3 i (knxt w) (khd w)))                  (* no access: goes to the no-op CAS *)
         end
  | 2 => (* claim: CAS next[i] SLEEPING -> head index *)
         if negb spurious && nst_eqb (nth i (tnext s) NSleep) NSleep then
           Some {| thead := thead s; tnext := lupd (tnext s) i (NIdx (snd (khd w))); tkwakers := lupd (tkwakers s) j (mkw 4 i (knxt w) (khd w));
                   cph := cph s; yielded := yielded s; woken := woken s; tnotif := tnotif s; tpanic := tpanic s |}
         else Some (set_w s j (mkw 1 i (nth i (tnext s) NSleep) (khd w)))
  | 3 => (* CAS next[i] nxt -> nxt: the wake-up is absorbed by the pending one *)
         if negb spurious && nst_eqb (nth i (tnext s) NSleep) (knxt w) then
           Some {| thead := thead s; tnext := tnext s; tkwakers := lupd (tkwakers s) j (mkw 6 i (knxt w) (khd w));
                   cph := cph s; yielded := yielded s; woken := lupd (woken s) i true; tnotif := tnotif s; tpanic := tpanic s |}
         else Some (set_w s j (mkw 1 i (nth i (tnext s) NSleep) (khd w)))
  | 4 => (* push: CAS head *)
         if negb spurious && hd_eqb (thead s) (khd w) then
           let cd := fst (khd w) in
           Some {| thead := (cd - 1, Some i); tnext := tnext s; tkwakers := lupd (tkwakers s) j (mkw 6 i (knxt w) (khd w));
                   cph := cph s; yielded := yielded s; woken := lupd (woken s) i true;
                   tnotif := tnotif s + (if Nat.eqb cd 1 then 1 else 0); tpanic := tpanic s |}
         else Some (set_w s j (mkw 5 i (knxt w) (thead s)))
  | 5 => Some {| thead := thead s; tnext := lupd (tnext s) i (NIdx (snd (khd w))); tkwakers := lupd (tkwakers s) j (mkw 4 i (knxt w) (khd w));
                 cph := cph s; yielded := yielded s; woken := woken s; tnotif := tnotif s; tpanic := tpanic s |}
  | _ => None
  end.

Definition set_c (s : tstate) (c : cphase) : tstate :=
  {| thead := thead s; tnext := tnext s; tkwakers := tkwakers s; cph := c; yielded := yielded s;
     woken := woken s; tnotif := tnotif s; tpanic := tpanic s |}.

(* consumer commands, issued when idle *)
Inductive ccmd := KTake (k : nat) | KIter | KDropIter.

(* one shared-memory access of the consumer *)
Definition cons_step (s : tstate) (spurious : bool) : option tstate :=
  match cph s with
  | CIdle => None
  | CTake k None => Some (set_c s (CTake k (Some (thead s))))
  | CTake k (Some hd) =>
      if negb spurious && hd_eqb (thead s) hd then
        let nh := match snd hd with None => (k, None) | Some _ => (0, None) end in
        Some {| thead := nh; tnext := tnext s; tkwakers := tkwakers s;
                cph := (match snd hd with None => CIdle | Some x => CIter (Some x) end);
                yielded := yielded s; woken := woken s; tnotif := tnotif s; tpanic := tpanic s |}
      else Some (set_c s (CTake k (Some (thead s))))
  | CIter None => Some (set_c s CIdle)
  | CIter (Some idx) =>
      (* next_index = tasks[idx].next.swap(SLEEPING); yield idx *)
      match nth idx (tnext s) NSleep with
      | NIdx x =>
          Some {| thead := thead s; tnext := lupd (tnext s) idx NSleep; tkwakers := tkwakers s; cph := CIter x;
                  yielded := idx :: yielded s; woken := lupd (woken s) idx false; tnotif := tnotif s; tpanic := tpanic s |}
      | NSleep =>
          Some {| thead := thead s; tnext := tnext s; tkwakers := tkwakers s; cph := CIdle;
                  yielded := yielded s; woken := woken s; tnotif := tnotif s; tpanic := S (tpanic s) |}
      end
  | CDrop None _ => Some (set_c s CIdle)
  | CDrop (Some idx) None => Some (set_c s (CDrop (Some idx) (Some (nth idx (tnext s) NSleep))))
  | CDrop (Some idx) (Some nx) =>
      match nx with
      | NIdx x =>
          (* a discarded wake-up: the owner gives up the scheduled tasks (discard_scheduled / early return) *)
          Some {| thead := thead s; tnext := lupd (tnext s) idx NSleep; tkwakers := tkwakers s; cph := CDrop x None;
                  yielded := yielded s; woken := lupd (woken s) idx false; tnotif := tnotif s; tpanic := tpanic s |}
      | NSleep =>
          Some {| thead := thead s; tnext := tnext s; tkwakers := tkwakers s; cph := CIdle;
                  yielded := yielded s; woken := woken s; tnotif := tnotif s; tpanic := S (tpanic s) |}
      end
  end.

(* thread 0: the consumer; thread j+1: waker j.  A command starts a consumer operation when idle
   (an iteration can be abandoned at any point: KDropIter turns it into a drop). *)
Inductive tlabel := LStep (t : nat) (spurious : bool) | LCmd (c : ccmd).

Definition tk_step (s : tstate) (l : tlabel) : option tstate :=
  match l with
  | LStep 0 b => cons_step s b
  | LStep (S j) b => match nth_error (tkwakers s) j with Some w => wake_step s j w b | None => None end
  | LCmd (KTake k) => match cph s with CIdle => Some (set_c s (CTake k None)) | _ => None end
  | LCmd KIter => None
  | LCmd KDropIter => match cph s with CIter it => Some (set_c s (CDrop it None)) | _ => None end
  end.

Fixpoint tk_run (s : tstate) (ls : list tlabel) : tstate :=
  match ls with
  | [] => s
  | l :: r => match tk_step s l with Some s' => tk_run s' r | None => tk_run s r end
  end.
