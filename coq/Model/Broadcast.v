(* Model of ports/output/broadcaster.rs: QueryBroadcaster::broadcast, BroadcasterInner::futures,
   BroadcastFuture::{new, poll, drop} and the reply iterator, over an ABSTRACT util/task_set.rs
   (the list of scheduled task indices, the iterator being consumed, the notification countdown)
   and diatomic-waker (one registered parent waker, consumed by a notification), driven
   sequentially: the environment completes / fails / spuriously wakes sub-futures between polls
   and - through the script - INSIDE the polls of other sub-futures.

   Sender j's reply to query number q is 1000*q + j.  A registered sub-future waker designates
   the parent (single-future paths: the sub-future is awaited directly) or task p of the task set. *)
Require Import NX.Base.Prelude NX.Base.ListX.

Inductive bact := BComplete (j : nat) | BError (j : nat) | BWake (j : nat).
Inductive target := TParent | TTask (p : nat).
Inductive avail := ANone | AOk (v : Z) | AErr.

Record tset := { tcount : nat; tlen : nat; sched : list nat; iter : list nat; countdown : nat }.

Inductive fstate := FUninit | FPending.
Inductive bfut :=
  | FStart (m : option nat)                               (* the async fn has not been polled yet *)
  | FSingle (j : nat) (m : option nat)                    (* one accepted sender: awaited directly *)
  | FMulti (acc : list nat) (st : fstate) (pend : nat) (m : option nat).

Record bstate := {
  bn : nat;
  qno : Z; avl : list avail; wk : list (option target); npoll : list nat;
  script : list ((nat * nat) * list bact); flt : list bool;
  outs : list (option Z);
  ts : tset; registered : bool; notifs : nat;
  fut : option bfut;
  sublog : list nat                                       (* sub-futures polled during the current parent poll *)
}.

Definition b_init (n : nat) : bstate :=
  {| bn := n; qno := 0; avl := repeat ANone n; wk := repeat None n; npoll := repeat 0 n; script := []; flt := repeat true n;
     outs := repeat None n;
     ts := {| tcount := 0; tlen := 0; sched := []; iter := []; countdown := 0 |};
     registered := false; notifs := 0; fut := None; sublog := [] |}.

Definition set_env (s : bstate) (a : list avail) (w : list (option target)) (np : list nat) : bstate :=
  {| bn := bn s; qno := qno s; avl := a; wk := w; npoll := np; script := script s; flt := flt s; outs := outs s;
     ts := ts s; registered := registered s; notifs := notifs s; fut := fut s; sublog := sublog s |}.
Definition set_ts (s : bstate) (t : tset) (r : bool) (nf : nat) : bstate :=
  {| bn := bn s; qno := qno s; avl := avl s; wk := wk s; npoll := npoll s; script := script s; flt := flt s; outs := outs s;
     ts := t; registered := r; notifs := nf; fut := fut s; sublog := sublog s |}.
Definition set_outs (s : bstate) (o : list (option Z)) : bstate :=
  {| bn := bn s; qno := qno s; avl := avl s; wk := wk s; npoll := npoll s; script := script s; flt := flt s; outs := o;
     ts := ts s; registered := registered s; notifs := notifs s; fut := fut s; sublog := sublog s |}.
Definition set_fut (s : bstate) (f : option bfut) : bstate :=
  {| bn := bn s; qno := qno s; avl := avl s; wk := wk s; npoll := npoll s; script := script s; flt := flt s; outs := outs s;
     ts := ts s; registered := registered s; notifs := notifs s; fut := f; sublog := sublog s |}.
Definition set_log (s : bstate) (l : list nat) : bstate :=
  {| bn := bn s; qno := qno s; avl := avl s; wk := wk s; npoll := npoll s; script := script s; flt := flt s; outs := outs s;
     ts := ts s; registered := registered s; notifs := notifs s; fut := fut s; sublog := l |}.

(* ---------------- task set (abstract) and wake sink ---------------- *)
Definition in_list (t : tset) (p : nat) : bool := existsb (Nat.eqb p) (sched t) || existsb (Nat.eqb p) (iter t).

(* Task::wake_by_ref *)
Definition ts_wake (s : bstate) (p : nat) : bstate :=
  let t := ts s in
  if in_list t p then s
  else
    let t' := {| tcount := tcount t; tlen := tlen t; sched := p :: sched t; iter := iter t; countdown := countdown t - 1 |} in
    if Nat.eqb (countdown t) 1
    then (if registered s then set_ts s t' false (S (notifs s)) else set_ts s t' false (notifs s))
    else set_ts s t' (registered s) (notifs s).

Definition fire (s : bstate) (w : option target) : bstate :=
  match w with
  | None => s
  | Some TParent => set_ts s (ts s) (registered s) (S (notifs s))
  | Some (TTask p) => ts_wake s p
  end.

(* TaskSet::take_scheduled(k): the scheduled list becomes the iterator *)
Definition ts_take (t : tset) (k : nat) : tset * bool :=
  match sched t with
  | [] => ({| tcount := tcount t; tlen := tlen t; sched := []; iter := iter t; countdown := k |}, false)
  | l => ({| tcount := tcount t; tlen := tlen t; sched := []; iter := l; countdown := 0 |}, true)
  end.

Definition ts_discard (t : tset) : tset :=
  {| tcount := tcount t; tlen := tlen t; sched := []; iter := []; countdown := 0 |}.

Definition ts_resize (t : tset) (len : nat) : tset :=
  {| tcount := len; tlen := Nat.max (tlen t) len; sched := sched t; iter := iter t; countdown := countdown t |}.

(* ---------------- the environment ---------------- *)
Definition do_act (s : bstate) (a : bact) : bstate :=
  match a with
  | BComplete j =>
      let w := nth j (wk s) None in
      fire (set_env s (lupd (avl s) j (AOk (1000 * qno s + Z.of_nat j))) (lupd (wk s) j None) (npoll s)) w
  | BError j =>
      let w := nth j (wk s) None in
      fire (set_env s (lupd (avl s) j AErr) (lupd (wk s) j None) (npoll s)) w
  | BWake j => fire s (nth j (wk s) None)
  end.

Fixpoint lookup_script (sc : list ((nat * nat) * list bact)) (j k : nat) : list bact :=
  match sc with
  | [] => []
  | ((j', k'), a) :: r => if Nat.eqb j j' && Nat.eqb k k' then a else lookup_script r j k
  end.

(* one poll of sender j's sub-future with the waker [tg] *)
Definition sub_poll (s : bstate) (j : nat) (tg : target) : bstate * avail :=
  let k := nth j (npoll s) 0 in
  let s1 := set_log (set_env s (avl s) (wk s) (lupd (npoll s) j (S k))) (sublog s ++ [j]) in
  let s2 := fold_left do_act (lookup_script (script s) j k) s1 in
  match nth j (avl s2) ANone with
  | ANone => (set_env s2 (avl s2) (lupd (wk s2) j (Some tg)) (npoll s2), ANone)
  | r => (s2, r)
  end.

(* ---------------- BroadcastFuture::poll ---------------- *)
Inductive pres := BPend | BErr | BOk.

(* polls the tasks [ps] (positions in acc) in order; stops at the first error *)
Fixpoint poll_tasks (s : bstate) (acc : list nat) (pend : nat) (ps : list nat) (skip_done : bool)
  : bstate * nat * bool (* error *) :=
  match ps with
  | [] => (s, pend, false)
  | p :: r =>
      if skip_done && match nth p (outs s) None with Some _ => true | None => false end
      then poll_tasks s acc pend r skip_done
      else
        match nth_error acc p with
        | None => poll_tasks s acc pend r skip_done          (* cannot happen: p < tcount = length acc *)
        | Some j =>
            let '(s1, res) := sub_poll s j (TTask p) in
            match res with
            | AOk v => poll_tasks (set_outs s1 (lupd (outs s1) p (Some v))) acc (pend - 1) r skip_done
            | AErr => (s1, pend, true)
            | ANone => poll_tasks s1 acc pend r skip_done
            end
        end
  end.

(* the iteration over the taken list: TaskIterator::next pops one index at a time (it stays
   "in the list" until popped); indices >= task_count are skipped; on an early return the
   iterator is dropped and the rest is cleared *)
Fixpoint poll_iter (fuel : nat) (s : bstate) (acc : list nat) (pend : nat) : bstate * nat * bool :=
  match fuel with
  | O => (s, pend, false)
  | S fuel' =>
      match iter (ts s) with
      | [] => (s, pend, false)
      | p :: r =>
          let t := ts s in
          let s0 := set_ts s {| tcount := tcount t; tlen := tlen t; sched := sched t; iter := r; countdown := countdown t |}
                           (registered s) (notifs s) in
          if Nat.ltb p (tcount t) then
            let '(s1, pend1, err) := poll_tasks s0 acc pend [p] true in
            if err then
              let t1 := ts s1 in
              (set_ts s1 {| tcount := tcount t1; tlen := tlen t1; sched := sched t1; iter := []; countdown := countdown t1 |}
                      (registered s1) (notifs s1), pend1, true)
            else poll_iter fuel' s1 acc pend1
          else poll_iter fuel' s0 acc pend
      end
  end.

Inductive loopres := LPend | LErr | LOk | LFuel.

Fixpoint poll_loop (fuel : nat) (s : bstate) (acc : list nat) (pend : nat) : bstate * nat * loopres :=
  match fuel with
  | O => (s, pend, LFuel)
  | S fuel' =>
      let s1 := match sched (ts s) with [] => set_ts s (ts s) true (notifs s) | _ => s end in
      let '(t2, some) := ts_take (ts s1) 1 in
      let s2 := set_ts s1 t2 (registered s1) (notifs s1) in
      if some then
        let '(s3, pend3, err) := poll_iter (S (length (iter t2))) s2 acc pend in
        if err then (s3, pend3, LErr)
        else if Nat.eqb pend3 0 then (s3, pend3, LOk)
        else poll_loop fuel' s3 acc pend3
      else (s2, pend, LPend)
  end.

Fixpoint clear_first (n : nat) (o : list (option Z)) : list (option Z) :=
  match n, o with
  | S n', _ :: r => None :: clear_first n' r
  | _, _ => o
  end.

(* the reply iterator: outputs.iter_mut().take(count).map(|t| t.take().unwrap()), of which the
   caller consumes m items (all if None) *)
Definition take_replies (s : bstate) (count : nat) (m : option nat) : bstate * option (list Z) :=
  let k := match m with None => count | Some m' => Nat.min m' count end in
  let got := firstn k (outs s) in
  if forallb (fun o => match o with Some _ => true | None => false end) got && Nat.eqb (length got) k
  then (set_outs s (clear_first k (outs s)), Some (opt_vals got))
  else (s, None).

Inductive bres :=
  | BRQ | BRS | BRD | BRDash | BRN (k : nat)
  | BRPNone
  | BRPoll (subs : list nat) (r : pres) (replies : list Z)
  | BRPanic (subs : list nat) | BRFuel.

Definition accepted (s : bstate) : list nat := filter (fun j => nth j (flt s) true) (seqn 0 (bn s)).

(* first poll of the async fn QueryBroadcaster::broadcast: which path is taken *)
Definition start_future (s : bstate) (m : option nat) : bstate :=
  match bn s with
  | 0 => set_fut s (Some (FMulti [] FUninit 0 m))   (* no sender: nothing to wait for (handled by the [] path) *)
  | _ =>
      match accepted s with
      | [] => set_fut s (Some (FMulti [] FUninit 0 m))
      | [j] => set_fut s (Some (FSingle j m))
      | acc =>
          (* BroadcastFuture::new *)
          let len := length acc in
          set_fut (set_outs (set_ts s (ts_resize (ts s) len) (registered s) (notifs s)) (clear_first len (outs s)))
                  (Some (FMulti acc FUninit len m))
      end
  end.

Definition finish (s : bstate) (count : nat) (m : option nat) : bstate * bres :=
  let '(s1, r) := take_replies s count m in
  match r with
  | Some vs => (set_fut s1 None, BRPoll (sublog s) BOk vs)
  | None => (set_fut s None, BRPanic (sublog s))
  end.

Definition fuel_of (s : bstate) : nat :=
  4 + bn s + fold_left (fun a x => a + length (snd x)) (script s) 0.

Definition b_poll (s0 : bstate) : bstate * bres :=
  let s := set_log s0 [] in
  match fut s with
  | None => (s, BRPNone)
  | Some f0 =>
      let s := match f0 with FStart m => start_future s m | _ => s end in
      match fut s with
      | Some (FSingle j m) =>
          let '(s1, res) := sub_poll s j TParent in
          match res with
          | ANone => (s1, BRPoll (sublog s1) BPend [])
          | AErr => (set_fut s1 None, BRPoll (sublog s1) BErr [])
          | AOk v => finish (set_outs s1 (lupd (outs s1) 0 (Some v))) 1 m
          end
      | Some (FMulti acc st pend m) =>
          match acc with
          | [] => finish s 0 m
          | _ =>
              let len := length acc in
              (* first poll: discard stale wake-ups, poll every sub-future once *)
              let '(s1, pend1, err1, done1) :=
                match st with
                | FUninit =>
                    let s' := set_ts s (ts_discard (ts s)) (registered s) (notifs s) in
                    let '(s'', pend', err) := poll_tasks s' acc pend (seqn 0 len) false in
                    (s'', pend', err, Nat.eqb pend' 0)
                | FPending => (s, pend, false, false)
                end in
              if err1 then (set_fut s1 None, BRPoll (sublog s1) BErr [])
              else if done1 then finish s1 len m
              else
                let '(s2, pend2, r) := poll_loop (fuel_of s1) s1 acc pend1 in
                match r with
                | LPend => (set_fut s2 (Some (FMulti acc FPending pend2 m)), BRPoll (sublog s2) BPend [])
                | LErr => (set_fut s2 None, BRPoll (sublog s2) BErr [])
                | LOk => finish s2 len m
                | LFuel => (set_fut s2 None, BRFuel)
                end
          end
      | _ => (s, BRPNone)
      end
  end.

Inductive bop :=
  | BOQuery (bits : list bool) (m : option nat)
  | BOScript (j k : nat) (acts : list bact)
  | BOPoll | BOAct (a : bact) | BODrop | BONotifs.

Definition b_step (s : bstate) (o : bop) : bstate * bres :=
  match o with
  | BOQuery bits m =>
      ({| bn := bn s; qno := (qno s + 1)%Z; avl := repeat ANone (bn s); wk := wk s; npoll := repeat 0 (bn s);
          script := []; flt := map (fun i => nth i bits true) (seqn 0 (bn s)); outs := outs s;
          ts := ts s; registered := registered s; notifs := notifs s; fut := Some (FStart m); sublog := [] |}, BRQ)
  | BOScript j k acts =>
      ({| bn := bn s; qno := qno s; avl := avl s; wk := wk s; npoll := npoll s;
          script := ((j, k), acts) :: script s; flt := flt s; outs := outs s;
          ts := ts s; registered := registered s; notifs := notifs s; fut := fut s; sublog := sublog s |}, BRS)
  | BOPoll => b_poll s
  | BOAct a => (do_act s a, BRDash)
  | BODrop => (set_fut s None, BRD)
  | BONotifs => (set_ts s (ts s) (registered s) 0, BRN (notifs s))
  end.

Fixpoint b_run (s : bstate) (ops : list bop) : list bres :=
  match ops with
  | [] => []
  | o :: r => let '(s', x) := b_step s o in x :: b_run s' r
  end.

Fixpoint b_exec (s : bstate) (ops : list bop) : bstate :=
  match ops with [] => s | o :: r => b_exec (fst (b_step s o)) r end.
