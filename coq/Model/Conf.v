(* Conf.v — schedule independence of a simulation step, as a message pool.

   The second sentence of C04: "for models whose reactions depend only on message content, the multiset
   of handler invocations and sink outputs of each step is the same whatever the interleaving".

   Abstract view of one call (init, step or one of the process calls): a POOL of messages that exist but whose handler
   has not started yet (in a mailbox, in a sender's hands, or not sent yet by a handler that has already
   started).  One abstract step picks ANY message of the pool, runs its handler, and adds everything this
   handler invocation will send - a function `react` of the message content only.  The real executors
   restrict which message may be picked next (FIFO mailboxes, one handler per model at a time, bounded
   capacities, worker threads); every real schedule is one of the schedules quantified over here.

   The second half of the file instantiates `react` from a bench of Model/Sim.v (scripts made of sends
   and queries), with the very functions conn_deliveries / query_deliveries the net model uses. *)
Require Import NX.Base.Prelude NX.Base.ListX NX.Model.PQ NX.Model.Sim.

Section Pool.
  Variable M : Type.
  Variable react : M -> list M.

  (* complete runs: the pool is processed until it is empty; the second list is the invocation log *)
  Inductive cruns : list M -> list M -> Prop :=
  | runs_nil : cruns [] []
  | runs_cons : forall P m rest L,
      Permutation P (m :: rest) -> cruns (react m ++ rest) L -> cruns P (m :: L).

  (* partial runs: pruns P L Q = from pool P, the invocations L (in this order) lead to pool Q *)
  Inductive pruns : list M -> list M -> list M -> Prop :=
  | pruns_nil : forall P Q, Permutation P Q -> pruns P [] Q
  | pruns_cons : forall P m rest L Q,
      Permutation P (m :: rest) -> pruns (react m ++ rest) L Q -> pruns P (m :: L) Q.

  (* an executable scheduler: the k-th choice (mod the pool size) selects the message *)
  Fixpoint pool_exec (fuel : nat) (P : list M) (ch : list nat) : option (list M) :=
    match fuel with
    | O => None
    | S f =>
        match P with
        | [] => Some []
        | _ :: _ =>
            let i := Nat.modulo (hd 0 ch) (length P) in
            match nth_error P i with
            | None => None
            | Some m =>
                match pool_exec f (react m ++ ldel P i) (tl ch) with
                | Some L => Some (m :: L)
                | None => None
                end
            end
        end
    end.
End Pool.

Arguments cruns {M}.
Arguments pruns {M}.
Arguments pool_exec {M}.

(* ------------------------------------------------------------------ *)
(* Instance: the content of a message of a bench, and what its handler sends *)

Inductive cmsg :=
  | CMInit (m : nat)                         (* the init of model m *)
  | CMHandler (m : nat) (input : nat) (v : Z)  (* an event for input `input` of model m *)
  | CMReplier (m : nat) (rep : nat) (v : Z)  (* a request for replier `rep` of model m *)
  | CMSink (s : nat) (v : Z)                 (* a value written to sink s *)
  | CMSource (src : nat) (v : Z).            (* a broadcast of event source src *)

Definition cm_of_msg (m : nat) (g : msg) : cmsg :=
  match mkd g with
  | KEvent _ => CMHandler m (minp g) (mval g)
  | KRequest _ _ rep _ => CMReplier m rep (mval g)
  end.

Definition cm_of_delivery (d : delivery) : cmsg :=
  match dtgt d with
  | DSink s v => CMSink s v
  | DModel m g => cm_of_msg m g
  end.

(* the messages one op of a script produces; om = the model running the script (None: an action
   task of the scheduler or of a process call), v = the payload the script runs on *)
Definition op_msgs (b : bench) (om : option nat) (v : Z) (o : op) : list cmsg :=
  match o, om with
  | OSend port e, Some m =>
      match nth_error (bmodels b) m with
      | Some sp => map cm_of_delivery (conn_deliveries (nth port (mouts sp) []) (eval e v))
      | None => []
      end
  | OQuery port e, Some m =>
      match nth_error (bmodels b) m with
      | Some sp => map cm_of_delivery (query_deliveries 0 0 (nth port (mreqs sp) []) (eval e v))
      | None => []
      end
  | OEvent m' i v' _, _ => [CMHandler m' i v']
  | OReq m' rep v', _ => [CMReplier m' rep v']
  | OBcast src v', _ => map cm_of_delivery (conn_deliveries (nth src (bsources b) []) v')
  | _, _ => []
  end.

Definition script_msgs (b : bench) (om : option nat) (v : Z) (ops : list op) : list cmsg :=
  flat_map (op_msgs b om v) ops.

Definition bench_react (b : bench) (c : cmsg) : list cmsg :=
  match c with
  | CMInit m =>
      match nth_error (bmodels b) m with Some sp => script_msgs b (Some m) 0 (minit sp) | None => [] end
  | CMHandler m i v =>
      match nth_error (bmodels b) m with
      | Some sp => script_msgs b (Some m) v (nth i (mhandlers sp) [])
      | None => []
      end
  | CMReplier m r v =>
      match nth_error (bmodels b) m with
      | Some sp => script_msgs b (Some m) v (fst (nth r (mrepliers sp) ([], 0%Z)))
      | None => []
      end
  | CMSink _ _ => []
  | CMSource src v => map cm_of_delivery (conn_deliveries (nth src (bsources b) []) v)
  end.

(* the fragment: scripts made of sends, queries and scheduling requests (a request only adds to the
   scheduler queue: it sends nothing in the current call), every model part of the simulation; no
   cancellation (whether a cancelled event is still processed depends on the schedule), no panic *)
Definition op_plain (o : op) : bool :=
  match o with OSend _ _ | OQuery _ _ | OSched _ _ _ _ _ => true | _ => false end.
Definition model_plain (sp : mspec) : bool :=
  match mplace sp with Added => true | _ => false end &&
  forallb op_plain (minit sp) && forallb (forallb op_plain) (mhandlers sp) &&
  forallb (fun r => forallb op_plain (fst r)) (mrepliers sp).
Definition bench_plain (b : bench) : bool := forallb model_plain (bmodels b).

(* the invocation entries of a net-model log, as message contents (time dropped) *)
Definition cm_of_entry (e : entry) : list cmsg :=
  match e with
  | EInit m _ => [CMInit m]
  | EHandler m i v _ => [CMHandler m i v]
  | EReplier m r v _ => [CMReplier m r v]
  | _ => []
  end.

Definition is_sink_msg (c : cmsg) : bool := match c with CMSink _ _ | CMSource _ _ => true | _ => false end.

(* ------------------------------------------------------------------ *)
(* The pool of a state of the net model of Model/Sim.v: every message that exists - queued in a
   mailbox, in a sender's hands (fpend), or still to be sent by a script that has started (frest) -
   plus the inits that have not run. *)

Fixpoint box_msgs (m0 : nat) (bs : list (list msg)) : list cmsg :=
  match bs with
  | [] => []
  | q :: r => map (cm_of_msg m0) q ++ box_msgs (S m0) r
  end.

Definition frame_msgs (b : bench) (om : option nat) (f : frame) : list cmsg :=
  map cm_of_delivery (fpend f) ++ script_msgs b om (fin f) (frest f).

Definition task_msgs (b : bench) (x : task) : list cmsg :=
  (if tinit x then match tk x with TKModel m => [CMInit m] | TKAction => [] end else []) ++
  match tfr x with Some f => frame_msgs b (task_model x) f | None => [] end.

Definition pool_of (b : bench) (s : state) : list cmsg :=
  box_msgs 0 (boxes s) ++ flat_map (task_msgs b) (tasks s).

(* scripts in flight: sends, queries, and the single op of an action task *)
Definition cop_ok (o : op) : bool :=
  match o with
  | OSend _ _ | OQuery _ _ | OSched _ _ _ _ _ | OEvent _ _ _ _ | OReq _ _ _ | OBcast _ _ => true
  | _ => false
  end.

Definition invs (l : list entry) : list cmsg := flat_map cm_of_entry l.

Definition sink_apply (sk : list sinkst) (c : cmsg) : list sinkst :=
  match c with
  | CMSink k v => match nth_error sk k with Some st => lupd sk k (sink_write st v) | None => sk end
  | _ => sk
  end.

(* a computable sufficient condition for the invariant (used by the correspondence runner too) *)
Definition ninv_check (s : state) : bool :=
  forallb (fun x => match tfr x with Some f => forallb cop_ok (frest f) | None => true end) (tasks s) &&
  forallb negb (cancelled s).


(* ------------------------------------------------------------------ *)
(* Decidable forms of the hypotheses of Proofs/ConfQuiet.v (a call that returns Ok has an empty pool):
   validity of the bench (capacities >= 1, connection targets exist, queries go to models with a larger
   index) and well-formedness of a start state (no task is waiting for a reply). *)

Definition is_action_op (o : op) : bool :=
  match o with OEvent _ _ _ _ | OReq _ _ _ | OBcast _ _ => true | _ => false end.
Definition op_target_ok (n : nat) (o : op) : bool :=
  match o with OEvent m _ _ _ | OReq m _ _ => Nat.ltb m n | _ => true end.

Definition conn_ok (n : nat) (c : conn) : bool :=
  match ctgt c with TgtModel m _ => Nat.ltb m n | TgtSink _ => true end.
Definition qconn_ok (n m : nat) (q : qconn) : bool := Nat.ltb m (qmodel q) && Nat.ltb (qmodel q) n.
Definition model_valid (n m : nat) (sp : mspec) : bool :=
  Nat.leb 1 (mcap sp) && forallb (forallb (conn_ok n)) (mouts sp) && forallb (forallb (qconn_ok n m)) (mreqs sp).
Fixpoint models_valid (n m : nat) (l : list mspec) : bool :=
  match l with [] => true | sp :: r => model_valid n m sp && models_valid n (S m) r end.
Definition bench_valid_check (b : bench) : bool :=
  bench_plain b && models_valid (length (bmodels b)) 0 (bmodels b) &&
  forallb (forallb (conn_ok (length (bmodels b)))) (bsources b).

Definition delivery_ok (n : nat) (d : delivery) : bool :=
  match dtgt d with DModel m _ => Nat.ltb m n | DSink _ _ => true end.
Definition task_ok_check (b : bench) (t : nat) (x : task) : bool :=
  let n := length (bmodels b) in
  match tfr x with
  | None => true
  | Some f => forallb (delivery_ok n) (fpend f) && match fwait f with [] => true | _ :: _ => false end
  end &&
  match tk x with
  | TKModel m =>
      Nat.eqb m t && Nat.ltb m n && negb (tdone x) &&
      match tfr x with Some f => forallb op_plain (frest f) | None => true end
  | TKAction =>
      negb (tinit x) &&
      match tfr x with
      | Some f => forallb is_action_op (frest f) && forallb (op_target_ok n) (frest f)
      | None => true
      end
  end.
Fixpoint tasks_ok_check (b : bench) (t : nat) (l : list task) : bool :=
  match l with [] => true | x :: r => task_ok_check b t x && tasks_ok_check b (S t) r end.
Definition qinv_check (b : bench) (s : state) : bool :=
  Nat.eqb (length (boxes s)) (length (bmodels b)) && tasks_ok_check b 0 (tasks s).

(* ------------------------------------------------------------------ *)
(* Executable check used by the correspondence runner (tools/props/confprops.py): on a plain bench, for
   init and for every process call of a command list, (1) the hypotheses of the confluence theorem hold
   at the start (ninv_check), (2) a call that returns Ok ends with an empty pool, and (3) the
   invocations the net model cm_logged under the given choice list are, as a multiset, the ones the
   pool scheduler predicts under its own (head-first) schedule. *)

Definition cmsg_eqb (a c : cmsg) : bool :=
  match a, c with
  | CMInit m, CMInit m' => Nat.eqb m m'
  | CMHandler m i v, CMHandler m' i' v' => Nat.eqb m m' && Nat.eqb i i' && Z.eqb v v'
  | CMReplier m i v, CMReplier m' i' v' => Nat.eqb m m' && Nat.eqb i i' && Z.eqb v v'
  | CMSink k v, CMSink k' v' => Nat.eqb k k' && Z.eqb v v'
  | CMSource k v, CMSource k' v' => Nat.eqb k k' && Z.eqb v v'
  | _, _ => false
  end.

Definition mset_eqb (l1 l2 : list cmsg) : bool :=
  Nat.eqb (length l1) (length l2) &&
  forallb (fun c => Nat.eqb (length (filter (cmsg_eqb c) l1)) (length (filter (cmsg_eqb c) l2))) l1.

Definition cm_logged (c : cmsg) : bool := negb (is_sink_msg c).

Inductive cverdict := CvNA | CvOk (quiescence_proved : bool) (invocations : list cmsg) | CvBad (why : nat).

Definition conf_run (b : bench) (fuel : nat) (s0 : state) (ch : list nat) : cverdict :=
  if negb (ninv_check s0) then CvNA
  else
    match net_run b fuel ch s0 false with
    | None => CvNA
    | Some (s', _) =>
        match err s' with
        | Some _ => CvNA
        | None =>
            if is_ok (classify b s') then
              match pool_of b s' with
              | _ :: _ => CvBad 2
              | [] =>
                  match pool_exec (bench_react b) fuel (pool_of b s0) [] with
                  | None => CvBad 3
                  | Some L =>
                      let nw := firstn (length (invs (log s')) - length (invs (log s0))) (invs (log s')) in
                      if mset_eqb nw (filter cm_logged L) then CvOk (bench_valid_check b && qinv_check b s0) (filter cm_logged L)
                      else CvBad 4
                  end
              end
            else CvNA
        end
    end.

(* the state in which step() starts the executor (mirror of the prefix of Sim.step_bounded, no bound) *)
Definition step_start_state (b : bench) (s : state) : option state :=
  let '(nk, q0) := peek_next (S (pq_len (queue s))) s (queue s) None in
  match nk with
  | None => None
  | Some k =>
      let s1 := add_log (set_now (set_queue s q0) (fst k)) (ETime (fst k)) in
      match crit (S (pq_len q0)) s1 q0 None k [] [] with
      | None => None
      | Some (q1, groups) =>
          let s2 := fold_left spawn groups (set_queue s1 q1) in
          let '(s3, ans) := clock_sync b s2 (fst k) in
          match over_tolerance b ans with Some _ => None | None => Some s3 end
      end
  end.

Definition conf_cmd (b : bench) (fuel : nat) (s : state) (c : cmd) (ch : list nat) : cverdict :=
  if negb (bench_plain b) || terminated s then CvNA
  else
    match c with
    | CProcEvent m i v => conf_run b fuel (spawn s [OEvent m i v None]) ch
    | CProcQuery m r v => conf_run b fuel (spawn (set_qreply s None) [OReq m r v]) ch
    | CProcSrc src v => conf_run b fuel (spawn s [OBcast src v]) ch
    | CStep => match step_start_state b s with Some s3 => conf_run b fuel s3 ch | None => CvNA end
    | _ => CvNA
    end.

Fixpoint conf_cmds (b : bench) (fuel : nat) (s : state) (cs : list (cmd * list nat)) : list cverdict :=
  match cs with
  | [] => []
  | (c, ch) :: r => conf_cmd b fuel s c ch :: conf_cmds b fuel (fst (fst (exec_cmd b fuel s c ch))) r
  end.

Definition conf_case (b : bench) (fuel : nat) (ich : list nat) (cs : list (cmd * list nat)) : list cverdict :=
  let s0 := init_state b in
  let s1 := add_log (set_now s0 (bt0 b)) (ETime (bt0 b)) in
  let s2 := fst (clock_sync b s1 (bt0 b)) in
  (if bench_plain b then conf_run b fuel s2 ich else CvNA)
    :: conf_cmds b fuel (fst (fst (sim_init b fuel ich))) cs.
