(* Model of util/cached_rw_lock.rs: a shared value with an epoch, and clones
   that each hold a cached copy with the epoch it was taken at.  Values are
   lists (the connection lists of Output / Requestor ports); an edit appends. *)
Require Import NX.Base.Prelude NX.Base.ListX.

Record crw := { shval : list nat; shepoch : nat; clones : list (list nat * nat) }.

Definition crw_new (v : list nat) : crw := {| shval := v; shepoch := 0; clones := [(v, 0)] |}.

(* CachedRwLock::clone (derive(Clone)): copies the local cache and its epoch *)
Definition crw_clone (s : crw) (i : nat) : crw :=
  match nth_error (clones s) i with
  | Some c => {| shval := shval s; shepoch := shepoch s; clones := clones s ++ [c] |}
  | None => s
  end.

(* write(): lock, bump the shared epoch, edit the SHARED value (the writer's own
   cache is left stale) *)
Definition crw_write (s : crw) (i x : nat) : crw :=
  match nth_error (clones s) i with
  | Some _ => {| shval := shval s ++ [x]; shepoch := S (shepoch s); clones := clones s |}
  | None => s
  end.

Definition sync (s : crw) (c : list nat * nat) : list nat * nat :=
  if Nat.eqb (shepoch s) (snd c) then c else (shval s, shepoch s).

(* write_scratchpad(): synchronise the cache if it is behind, then edit it locally *)
Definition crw_scratch (s : crw) (i x : nat) : crw * list nat :=
  match nth_error (clones s) i with
  | Some c => let '(v, e) := sync s c in
              ({| shval := shval s; shepoch := shepoch s; clones := lupd (clones s) i (v ++ [x], e) |}, v ++ [x])
  | None => (s, [])
  end.

(* read(): synchronise if behind, return the cache *)
Definition crw_read (s : crw) (i : nat) : crw * list nat :=
  match nth_error (clones s) i with
  | Some c => let '(v, e) := sync s c in
              ({| shval := shval s; shepoch := shepoch s; clones := lupd (clones s) i (v, e) |}, v)
  | None => (s, [])
  end.

Inductive crw_op := CClone (i : nat) | CWrite (i x : nat) | CScratch (i x : nat) | CRead (i : nat).

Definition crw_step (s : crw) (o : crw_op) : crw * list nat :=
  match o with
  | CClone i => (crw_clone s i, [])
  | CWrite i x => (crw_write s i x, [])
  | CScratch i x => crw_scratch s i x
  | CRead i => crw_read s i
  end.

Fixpoint crw_run (s : crw) (ops : list crw_op) : list (list nat) :=
  match ops with [] => [] | o :: r => let '(s', x) := crw_step s o in x :: crw_run s' r end.
Fixpoint crw_exec (s : crw) (ops : list crw_op) : crw :=
  match ops with [] => s | o :: r => crw_exec (fst (crw_step s o)) r end.
