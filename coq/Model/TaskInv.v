(* The inductive invariant of TaskSM, as a boolean (so that it can also be
   evaluated on runs) *)
Require Import NX.Base.Prelude NX.Model.TaskSM.

Definition b2n (b : bool) : nat := if b then 1 else 0.
Definition active (s : ts) : nat := match runner s with RIdle => 0 | _ => 1 end.
Definition is_fut (c : core) : bool := match c with CFuture => true | _ => false end.
Definition is_out (c : core) : bool := match c with COutput => true | _ => false end.
Definition is_empty (c : core) : bool := match c with CEmpty => true | _ => false end.

Definition phase_ok (s : ts) : bool :=
  match runner s with
  | RIdle =>
      if cdrop s then negb (polling s) && closed s && is_fut (tcore s) && Nat.eqb (queued s) 0
      else if polling s then is_fut (tcore s)
           else if closed s then is_empty (tcore s) else is_out (tcore s)
  | RLoaded wc c =>
      polling s && Nat.leb wc (wake s) && is_fut (tcore s) && negb (cdrop s) &&
      (if c then closed s else negb (Nat.eqb wc 0))
  | RInPoll wc =>
      polling s && Nat.leb wc (wake s) && is_fut (tcore s) && negb (cdrop s) && negb (Nat.eqb wc 0)
  | RReadyStored => polling s && negb (Nat.eqb (wake s) 0) && is_out (tcore s) && negb (cdrop s)
  | RReadyFail => polling s && (negb (Nat.eqb (wake s) 0) || closed s) && is_empty (tcore s) && negb (cdrop s)
                  && (closed s || Nat.eqb (refs s) 0)
  | RCancelDrop => polling s && (negb (Nat.eqb (wake s) 0) || closed s) && is_empty (tcore s) && negb (cdrop s)
  end.

Definition inv_b (s : ts) : bool :=
  Nat.eqb (badpoll s) 0 && Nat.eqb (badrun s) 0 && Nat.eqb (badfree s) 0 &&
  Nat.leb (queued s + active s) 1 &&
  (if alloc s then
     Nat.eqb (refs s) (wakers s + b2n (token s) + b2n (promise s) + b2n (cdrop s)) &&
     Nat.eqb (deallocs s) 0 &&
     Bool.eqb (Nat.eqb (queued s + active s) 1) (runnable_exists s) &&
     phase_ok s &&
     negb (Nat.eqb (wakers s + b2n (token s) + b2n (promise s) + queued s + active s + b2n (cdrop s)) 0)
   else
     Nat.eqb (wakers s) 0 && negb (token s) && negb (promise s) && Nat.eqb (queued s) 0 &&
     Nat.eqb (active s) 0 && negb (cdrop s) && Nat.eqb (deallocs s) 1 && is_empty (tcore s)) &&
  Nat.eqb (futdrops s) (if is_fut (tcore s) then 0 else 1) &&
  Nat.leb (outdrops s) 1 && (negb (is_out (tcore s)) || Nat.eqb (outdrops s) 0) &&
  (negb (is_fut (tcore s)) || Nat.eqb (outdrops s) 0).

(* index of the first prefix of [ops] after which the invariant fails *)
Fixpoint first_bad (s : ts) (ops : list top) (i : nat) : option nat :=
  if inv_b s then
    match ops with
    | [] => None
    | o :: r => match ts_step s o with Some s' => first_bad s' r (S i) | None => first_bad s r (S i) end
    end
  else Some i.
