(* Model of util/sync_cell.rs + time/monotonic_time.rs (TearableAtomicTime):
   one writer performing successive `write`s, any number of readers running
   `try_read` in a loop, under sequentially consistent interleaving at
   atomic-operation granularity.  Ghost fields (history of completed writes,
   index of the snapshot a reader is attempting, indices of returned values)
   do not influence the steps. *)
Require Import NX.Base.Prelude NX.Base.ListX.

Definition tval := (Z * Z)%type.   (* (secs, nanos) *)

Record reader := {
  rpc : nat;          (* 0: load seq | 1: load secs | 2: load nanos | 3: fence | 4: reload seq *)
  rs : nat;           (* sequence number loaded at pc 0 *)
  ra : Z; rb : Z;     (* loaded halves *)
  rj : nat;           (* ghost: rs / 2 *)
  rout : list (nat * tval)   (* ghost: values returned so far, newest first, with their index *)
}.

Record slstate := {
  seq : nat; ma : Z; mb : Z;        (* shared memory *)
  wpc : nat;                        (* writer: 0 load seq | 1 store seq+1 | 2 fence | 3 store secs | 4 store nanos | 5 store seq+2 *)
  ws : nat;
  wvals : list tval;                (* values still to be written; the head is in progress *)
  hist : list tval;                 (* ghost: initial value followed by the completed writes *)
  readers : list reader
}.

Definition sl_init (v0 : tval) (vals : list tval) (nreaders : nat) : slstate :=
  {| seq := 0; ma := fst v0; mb := snd v0; wpc := 0; ws := 0; wvals := vals; hist := [v0];
     readers := map (fun _ => {| rpc := 0; rs := 0; ra := 0; rb := 0; rj := 0; rout := [] |}) (seqn 0 nreaders) |}.

Definition set_readers (s : slstate) (rs' : list reader) : slstate :=
  {| seq := seq s; ma := ma s; mb := mb s; wpc := wpc s; ws := ws s; wvals := wvals s; hist := hist s; readers := rs' |}.

Definition writer_step (s : slstate) : option slstate :=
  match wvals s with
  | [] => None
  | v :: rest =>
      match wpc s with
      | 0 => Some {| seq := seq s; ma := ma s; mb := mb s; wpc := 1; ws := seq s; wvals := wvals s; hist := hist s; readers := readers s |}
      | 1 => Some {| seq := S (ws s); ma := ma s; mb := mb s; wpc := 2; ws := ws s; wvals := wvals s; hist := hist s; readers := readers s |}
      | 2 => Some {| seq := seq s; ma := ma s; mb := mb s; wpc := 3; ws := ws s; wvals := wvals s; hist := hist s; readers := readers s |}
      | 3 => Some {| seq := seq s; ma := fst v; mb := mb s; wpc := 4; ws := ws s; wvals := wvals s; hist := hist s; readers := readers s |}
      | 4 => Some {| seq := seq s; ma := ma s; mb := snd v; wpc := 5; ws := ws s; wvals := wvals s; hist := hist s; readers := readers s |}
      | 5 => Some {| seq := S (S (ws s)); ma := ma s; mb := mb s; wpc := 0; ws := ws s; wvals := rest;
                     hist := hist s ++ [v]; readers := readers s |}
      | _ => None
      end
  end.

Definition reader_step (s : slstate) (r : reader) : reader :=
  match rpc r with
  | 0 => if Nat.even (seq s)
         then {| rpc := 1; rs := seq s; ra := ra r; rb := rb r; rj := Nat.div (seq s) 2; rout := rout r |}
         else r                                   (* Err: retry *)
  | 1 => {| rpc := 2; rs := rs r; ra := ma s; rb := rb r; rj := rj r; rout := rout r |}
  | 2 => {| rpc := 3; rs := rs r; ra := ra r; rb := mb s; rj := rj r; rout := rout r |}
  | 3 => {| rpc := 4; rs := rs r; ra := ra r; rb := rb r; rj := rj r; rout := rout r |}
  | _ => if Nat.eqb (seq s) (rs r)
         then {| rpc := 0; rs := rs r; ra := ra r; rb := rb r; rj := rj r; rout := (rj r, (ra r, rb r)) :: rout r |}
         else {| rpc := 0; rs := rs r; ra := ra r; rb := rb r; rj := rj r; rout := rout r |}
  end.

(* thread 0 is the writer, thread i+1 is reader i *)
Definition sl_step (s : slstate) (t : nat) : option slstate :=
  match t with
  | O => writer_step s
  | S i => match nth_error (readers s) i with
           | Some r => Some (set_readers s (lupd (readers s) i (reader_step s r)))
           | None => None
           end
  end.

Fixpoint sl_run (s : slstate) (sched : list nat) : slstate :=
  match sched with
  | [] => s
  | t :: r => match sl_step s t with Some s' => sl_run s' r | None => sl_run s r end
  end.

(* what the harness observes: per reader, the values returned, oldest first *)
Definition sl_outputs (s : slstate) : list (list tval) := map (fun r => rev (map snd (rout r))) (readers s).
