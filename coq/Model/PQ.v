(* Model of nexosim/src/util/priority_queue.rs.

   The Rust type wraps std's BinaryHeap over items ordered by
   key.cmp().then(epoch.cmp()).reverse(): `pop`/`peek` return the item that is
   minimal for the lexicographic order on (key, epoch).  Epochs are issued from
   a counter, so that order is strict and the result is determined. *)
Require Import NX.Base.Prelude.

Section PQ.
  Variable V : Type.

  Record item := { ikey : key; iepoch : N; ival : V }.

  Record pq := { items : list item; next_epoch : N }.

  Definition pq_empty : pq := {| items := []; next_epoch := 0%N |}.

  (* Item::cmp before the `reverse`: strict "comes out earlier" test. *)
  Definition item_ltb (a b : item) : bool :=
    key_ltb (ikey a) (ikey b) || (key_eqb (ikey a) (ikey b) && N.ltb (iepoch a) (iepoch b)).

  Definition pq_insert (q : pq) (k : key) (v : V) : pq :=
    {| items := items q ++ [ {| ikey := k; iepoch := next_epoch q; ival := v |} ];
       next_epoch := (next_epoch q + 1)%N |}.

  (* Minimum of a non-empty list for item_ltb (first minimal position). *)
  Fixpoint min_item (cur : item) (l : list item) : item :=
    match l with
    | [] => cur
    | x :: r => if item_ltb x cur then min_item x r else min_item cur r
    end.

  Definition pq_peek_item (q : pq) : option item :=
    match items q with
    | [] => None
    | x :: r => Some (min_item x r)
    end.

  (* Removes the (unique) item carrying epoch e. *)
  Fixpoint remove_epoch (e : N) (l : list item) : list item :=
    match l with
    | [] => []
    | x :: r => if N.eqb (iepoch x) e then r else x :: remove_epoch e r
    end.

  Definition pq_peek (q : pq) : option (key * V) :=
    match pq_peek_item q with
    | None => None
    | Some m => Some (ikey m, ival m)
    end.

  Definition pq_pull (q : pq) : option (key * V) * pq :=
    match pq_peek_item q with
    | None => (None, q)
    | Some m =>
        (Some (ikey m, ival m),
         {| items := remove_epoch (iepoch m) (items q); next_epoch := next_epoch q |})
    end.

  Definition pq_len (q : pq) : nat := length (items q).

  (* --- operation sequences (used by the correspondence check) --- *)
  Inductive pq_op := PInsert (k : key) (v : V) | PPull | PPeek.
  Inductive pq_res := RUnit | RNone | RSome (k : key) (v : V).

  Definition res_of (o : option (key * V)) : pq_res :=
    match o with None => RNone | Some (k, v) => RSome k v end.

  Definition pq_step (q : pq) (o : pq_op) : pq * pq_res :=
    match o with
    | PInsert k v => (pq_insert q k v, RUnit)
    | PPull => let '(r, q') := pq_pull q in (q', res_of r)
    | PPeek => (q, res_of (pq_peek q))
    end.

  Fixpoint pq_run (q : pq) (ops : list pq_op) : list pq_res :=
    match ops with
    | [] => []
    | o :: r => let '(q', x) := pq_step q o in x :: pq_run q' r
    end.

  Fixpoint pq_exec (q : pq) (ops : list pq_op) : pq :=
    match ops with
    | [] => q
    | o :: r => pq_exec (fst (pq_step q o)) r
    end.

  (* --- the specification: a list of (key, value) in insertion order; the
         entry that comes out is the FIRST one among those with the least key. *)
  Definition spec := list (key * V).

  Fixpoint spec_min (cur : key * V) (l : list (key * V)) : key * V :=
    match l with
    | [] => cur
    | x :: r => if key_ltb (fst x) (fst cur) then spec_min x r else spec_min cur r
    end.

  Definition spec_peek (s : spec) : option (key * V) :=
    match s with [] => None | x :: r => Some (spec_min x r) end.

  (* index of the first entry with the minimal key *)
  Fixpoint spec_min_idx (curk : key) (curi : nat) (i : nat) (l : list (key * V)) : nat :=
    match l with
    | [] => curi
    | x :: r => if key_ltb (fst x) curk then spec_min_idx (fst x) i (S i) r
                else spec_min_idx curk curi (S i) r
    end.

  Fixpoint remove_nth {A} (n : nat) (l : list A) : list A :=
    match l, n with
    | [], _ => []
    | _ :: r, O => r
    | x :: r, S n' => x :: remove_nth n' r
    end.

  Definition spec_pull (s : spec) : option (key * V) * spec :=
    match s with
    | [] => (None, s)
    | x :: r => let i := spec_min_idx (fst x) 0 1 r in (nth_error s i, remove_nth i s)
    end.

  Definition spec_step (s : spec) (o : pq_op) : spec * pq_res :=
    match o with
    | PInsert k v => (s ++ [(k, v)], RUnit)
    | PPull => let '(r, s') := spec_pull s in (s', res_of r)
    | PPeek => (s, res_of (spec_peek s))
    end.

  Fixpoint spec_run (s : spec) (ops : list pq_op) : list pq_res :=
    match ops with
    | [] => []
    | o :: r => let '(s', x) := spec_step s o in x :: spec_run s' r
    end.
End PQ.

Arguments ikey {V}. Arguments iepoch {V}. Arguments ival {V}.
Arguments items {V}. Arguments next_epoch {V}.
Arguments pq_empty {V}. Arguments pq_insert {V}. Arguments pq_peek {V}.
Arguments pq_peek_item {V}. Arguments pq_pull {V}. Arguments pq_len {V}.
Arguments PInsert {V}. Arguments PPull {V}. Arguments PPeek {V}.
Arguments RUnit {V}. Arguments RNone {V}. Arguments RSome {V}.
Arguments pq_step {V}. Arguments pq_run {V}. Arguments pq_exec {V}.
Arguments spec_step {V}. Arguments spec_run {V}. Arguments spec_pull {V}. Arguments spec_peek {V}.
Arguments item_ltb {V}. Arguments min_item {V}. Arguments remove_epoch {V}.
Arguments remove_nth {A}. Arguments spec_min {V}. Arguments spec_min_idx {V}. Arguments res_of {V}.
