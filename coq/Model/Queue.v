(* Model of channel/queue.rs for sequential operation sequences (one producer
   at a time, the single consumer, one outstanding borrow).

   Positions are linear counters n (the real encoding packs lap, closed flag
   and index into one word: pos(n) = (n / cap) * 2M + n mod cap with
   M = next_power_of_two cap; it is strictly monotone in n, so the equality and
   order tests of the code on encoded positions/stamps are the tests below on
   linear positions; the encoding itself is exercised by the correspondence
   check over several laps and capacities).  A slot's stamp says which
   position it is ready for:  SVac n = vacant, to be written by push number n
   (real stamp = pos n);  SPop n v = holds the message of push n (pos n + 1);
   SBor n = its message is borrowed by the consumer (still pos n + 1). *)
Require Import NX.Base.Prelude NX.Base.ListX.

Section Queue.
  Variable V : Type.

  Inductive stamp := SVac (n : nat) | SPop (n : nat) (v : V) | SBor (n : nat).

  Record queue := { qcap : nat; qclosed : bool; qenq : nat; qdeq : nat; qslots : list stamp;
                    qheld : option nat (* slot index of the outstanding borrow *) }.

  Definition queue_new (cap : nat) : queue :=
    {| qcap := cap; qclosed := false; qenq := 0; qdeq := 0; qslots := map SVac (seqn 0 cap); qheld := None |}.

  Inductive push_res := PushOk | PushFull | PushClosed.
  Inductive pop_res := PopVal (v : V) | PopEmpty | PopClosed | PopBusy.

  (* Queue::push *)
  Definition q_push (q : queue) (v : V) : queue * push_res :=
    if qclosed q then (q, PushClosed)
    else
      let i := Nat.modulo (qenq q) (qcap q) in
      match nth_error (qslots q) i with
      | Some (SVac n) =>
          if Nat.eqb n (qenq q) then
            ({| qcap := qcap q; qclosed := false; qenq := S (qenq q); qdeq := qdeq q;
                qslots := lupd (qslots q) i (SPop n v); qheld := qheld q |}, PushOk)
          else (q, PushFull)
      | _ => (q, PushFull)
      end.

  (* Queue::pop (the borrow is kept until q_release) *)
  Definition q_pop (q : queue) : queue * pop_res :=
    match qheld q with
    | Some _ => (q, PopBusy)
    | None =>
        let i := Nat.modulo (qdeq q) (qcap q) in
        match nth_error (qslots q) i with
        | Some (SPop n v) =>
            if Nat.eqb n (qdeq q) then
              ({| qcap := qcap q; qclosed := qclosed q; qenq := qenq q; qdeq := S (qdeq q);
                  qslots := lupd (qslots q) i (SBor n); qheld := Some i |}, PopVal v)
            else (q, if qclosed q && Nat.eqb (qenq q) (qdeq q) then PopClosed else PopEmpty)
        | _ => (q, if qclosed q && Nat.eqb (qenq q) (qdeq q) then PopClosed else PopEmpty)
        end
    end.

  (* drop of the MessageBorrow: the slot becomes vacant for the next lap *)
  Definition q_release (q : queue) : queue * bool :=
    match qheld q with
    | None => (q, false)
    | Some i =>
        match nth_error (qslots q) i with
        | Some (SBor n) =>
            ({| qcap := qcap q; qclosed := qclosed q; qenq := qenq q; qdeq := qdeq q;
                qslots := lupd (qslots q) i (SVac (n + qcap q)); qheld := None |}, true)
        | _ => (q, false)
        end
    end.

  Definition q_close (q : queue) : queue :=
    {| qcap := qcap q; qclosed := true; qenq := qenq q; qdeq := qdeq q; qslots := qslots q; qheld := qheld q |}.

  Definition q_len (q : queue) : nat := qenq q - qdeq q.

  Inductive qop := QPush (v : V) | QPop | QPopHold | QRelease | QClose | QLen | QIsClosed.
  Inductive qres := QRPush (r : push_res) | QRPop (r : pop_res) | QRRel (b : bool) | QRUnit | QRLen (n : nat) | QRBool (b : bool).

  Definition q_step (q : queue) (o : qop) : queue * qres :=
    match o with
    | QPush v => let '(q', r) := q_push q v in (q', QRPush r)
    | QPop => let '(q1, r) := q_pop q in
              match r with
              | PopVal _ => (fst (q_release q1), QRPop r)
              | _ => (q1, QRPop r)
              end
    | QPopHold => let '(q', r) := q_pop q in (q', QRPop r)
    | QRelease => let '(q', b) := q_release q in (q', QRRel b)
    | QClose => (q_close q, QRUnit)
    | QLen => (q, QRLen (q_len q))
    | QIsClosed => (q, QRBool (qclosed q))
    end.

  Fixpoint q_run (q : queue) (ops : list qop) : list qres :=
    match ops with [] => [] | o :: r => let '(q', x) := q_step q o in x :: q_run q' r end.

  Fixpoint q_exec (q : queue) (ops : list qop) : queue :=
    match ops with [] => q | o :: r => q_exec (fst (q_step q o)) r end.

  (* ---------------- specification: a bounded FIFO with a borrowed slot ---------- *)
  Record fifo := { fcap : nat; fclosed : bool; fitems : list V; fheld : bool }.
  Definition fifo_new cap := {| fcap := cap; fclosed := false; fitems := []; fheld := false |}.

  Definition fifo_step (f : fifo) (o : qop) : fifo * qres :=
    match o with
    | QPush v =>
        if fclosed f then (f, QRPush PushClosed)
        else if Nat.ltb (length (fitems f) + (if fheld f then 1 else 0)) (fcap f)
             then ({| fcap := fcap f; fclosed := false; fitems := fitems f ++ [v]; fheld := fheld f |}, QRPush PushOk)
             else (f, QRPush PushFull)
    | QPop =>
        if fheld f then (f, QRPop PopBusy)
        else match fitems f with
             | x :: r => ({| fcap := fcap f; fclosed := fclosed f; fitems := r; fheld := false |}, QRPop (PopVal x))
             | [] => (f, QRPop (if fclosed f then PopClosed else PopEmpty))
             end
    | QPopHold =>
        if fheld f then (f, QRPop PopBusy)
        else match fitems f with
             | x :: r => ({| fcap := fcap f; fclosed := fclosed f; fitems := r; fheld := true |}, QRPop (PopVal x))
             | [] => (f, QRPop (if fclosed f then PopClosed else PopEmpty))
             end
    | QRelease => ({| fcap := fcap f; fclosed := fclosed f; fitems := fitems f; fheld := false |}, QRRel (fheld f))
    | QClose => ({| fcap := fcap f; fclosed := true; fitems := fitems f; fheld := fheld f |}, QRUnit)
    | QLen => (f, QRLen (length (fitems f)))
    | QIsClosed => (f, QRBool (fclosed f))
    end.

  Fixpoint fifo_run (f : fifo) (ops : list qop) : list qres :=
    match ops with [] => [] | o :: r => let '(f', x) := fifo_step f o in x :: fifo_run f' r end.
End Queue.

Arguments SVac {V}. Arguments SPop {V}. Arguments SBor {V}.
Arguments qcap {V}. Arguments qclosed {V}. Arguments qenq {V}. Arguments qdeq {V}. Arguments qslots {V}. Arguments qheld {V}.
Arguments queue_new {V}. Arguments q_push {V}. Arguments q_pop {V}. Arguments q_release {V}. Arguments q_close {V}. Arguments q_len {V}.
Arguments QPush {V}. Arguments QPop {V}. Arguments QPopHold {V}. Arguments QRelease {V}. Arguments QClose {V}. Arguments QLen {V}. Arguments QIsClosed {V}.
Arguments QRPush {V}. Arguments QRPop {V}. Arguments QRRel {V}. Arguments QRUnit {V}. Arguments QRLen {V}. Arguments QRBool {V}.
Arguments PopVal {V}. Arguments PopEmpty {V}. Arguments PopClosed {V}. Arguments PopBusy {V}.
Arguments q_step {V}. Arguments q_run {V}. Arguments q_exec {V}.
Arguments fcap {V}. Arguments fclosed {V}. Arguments fitems {V}. Arguments fheld {V}.
Arguments fifo_new {V}. Arguments fifo_step {V}. Arguments fifo_run {V}.
