(* Model of the worker-pool protocol of the multi-threaded executor
   (executor/mt_executor.rs: Executor::run, run_local_worker, schedule_task;
    executor/mt_executor/pool_manager.rs: activate_worker[_relaxed], try_set_worker_inactive,
    set_all_workers_inactive, pool_is_idle), under sequentially consistent interleaving at the
   granularity of ONE shared-memory access per step.

   Tasks are anonymous (only their number matters); what a task does when it runs is left to the
   label of each step: change the thread's sent-minus-received message count, wake another task
   (schedule_task), finish.  The "barrier" of run_local_worker (the code between two searches for tasks)
   is a PROGRAM, a parameter of the model: the translator tools/gen_pool.py regenerates it from the
   source on every run (gen/PoolProg.v).

   Over-approximations (each adds behaviours, none removes any): a worker gives up its search whenever it
   likes (the code: after 1 us without success); activate_worker_relaxed may pick any worker (the code: the
   first idle one of a possibly stale snapshot) and is called or not at the scheduler's whim (the code: when
   no worker is searching); the capacity of the local queue and of the buckets is not modelled, the worker
   moves any number of tasks from its local queue to the injector whenever it pushes; a bucket popped from
   the injector holds any positive number of tasks; a steal takes any positive number of tasks.
   Not modelled: the abort signal / timeout / panic paths, Executor::new (the initial state is the one
   it waits for: every worker parked, the pool idle), relaxed-memory effects (orderings are checked
   separately, see DESIGN). *)
Require Import NX.Base.Prelude NX.Base.ListX.

Inductive bop := BUpdate | BPark | BSetAllInactive | BUnparkMain | BBeginSearch.

Record barrier := {
  b_pre : list bop;          (* before try_set_worker_inactive *)
  b_inactive : list bop;     (* try_set_worker_inactive returned true *)
  b_last_empty : list bop;   (* last active worker, injector empty *)
  b_last_busy : list bop     (* last active worker, injector populated *)
}.

Inductive ppc :=
  | WPre (ops : list bop)
  | WTry
  | WChk
  | WPost (ops : list bop)
  | WSearch
  | WExt                       (* a bucket was popped: extend the local queue with it *)
  | WRun                       (* fast_slot.take().or_else(|| local_queue.pop()) *)
  | WTask                      (* inside task.run() *)
  | WSched1                    (* schedule_task: the previous occupant of the fast slot is in hand *)
  | WSched2                    (* schedule_task: activate a sibling? *)
  | WAct (v : nat)             (* activate_worker_relaxed: fetch_or on the bit of v *)
  | WUnpark (v : nat).         (* worker_unparkers[v].unpark() *)

Record pworker := {
  wpc : ppc;
  wact : bool;                 (* this worker's bit of PoolManager.active_workers *)
  wtok : bool;                 (* the token of this worker's parker *)
  wlq : nat;                   (* tasks in the local queue *)
  wslot : bool;                (* fast slot occupied *)
  whand : nat;                 (* tasks held in local variables *)
  wcnt : Z                     (* channel::THREAD_MSG_COUNT *)
}.

Inductive mpc :=
  | MIdle                      (* outside Executor::run: tasks may be spawned *)
  | MAct (snap : list bool)    (* activate_worker(): snapshot of active_workers *)
  | MUnpark (v : nat)
  | MLoop                      (* run(): pool_is_idle()? *)
  | MPark                      (* run(): parker.park() *)
  | MRead.                     (* run(): msg_count.load() *)

Record pstate := {
  pws : list pworker;
  pinj : nat;                  (* tasks in the injector *)
  pmsg : Z;                    (* ExecutorContext.msg_count *)
  pmain : mpc;
  pmtok : bool;                (* the token of the main thread's parker *)
  pnet : Z;                    (* ghost: messages sent minus messages received, all threads, ever *)
  ppanic : nat;                (* ghost: a failed assertion (try_set_worker_inactive: own bit set; steal: fast slot empty) *)
  preads : list (Z * Z);       (* ghost: (msg_count read by run(), ghost net at that moment), newest first *)
  psched : nat;                (* ghost: tasks spawned or woken (made runnable), ever *)
  pran : nat                   (* ghost: tasks taken from the fast slot / local queue and run, ever *)
}.

Definition wdef : pworker :=
  {| wpc := WPost [BPark]; wact := false; wtok := false; wlq := 0; wslot := false; whand := 0; wcnt := 0 |}.

Definition p_init (n : nat) : pstate :=
  {| pws := repeat wdef n; pinj := 0; pmsg := 0; pmain := MIdle; pmtok := false; pnet := 0; ppanic := 0; preads := [];
     psched := 0; pran := 0 |}.

Definition W (s : pstate) (j : nat) : pworker := nth j (pws s) wdef.

Definition set_pc (w : pworker) (pc : ppc) : pworker :=
  {| wpc := pc; wact := wact w; wtok := wtok w; wlq := wlq w; wslot := wslot w; whand := whand w; wcnt := wcnt w |}.
Definition set_act (w : pworker) (b : bool) : pworker :=
  {| wpc := wpc w; wact := b; wtok := wtok w; wlq := wlq w; wslot := wslot w; whand := whand w; wcnt := wcnt w |}.
Definition set_tok (w : pworker) (b : bool) : pworker :=
  {| wpc := wpc w; wact := wact w; wtok := b; wlq := wlq w; wslot := wslot w; whand := whand w; wcnt := wcnt w |}.
Definition set_lq (w : pworker) (n : nat) : pworker :=
  {| wpc := wpc w; wact := wact w; wtok := wtok w; wlq := n; wslot := wslot w; whand := whand w; wcnt := wcnt w |}.
Definition set_slot (w : pworker) (b : bool) : pworker :=
  {| wpc := wpc w; wact := wact w; wtok := wtok w; wlq := wlq w; wslot := b; whand := whand w; wcnt := wcnt w |}.
Definition set_hand (w : pworker) (n : nat) : pworker :=
  {| wpc := wpc w; wact := wact w; wtok := wtok w; wlq := wlq w; wslot := wslot w; whand := n; wcnt := wcnt w |}.
Definition set_cnt (w : pworker) (c : Z) : pworker :=
  {| wpc := wpc w; wact := wact w; wtok := wtok w; wlq := wlq w; wslot := wslot w; whand := whand w; wcnt := c |}.

Definition set_ws (s : pstate) (l : list pworker) : pstate :=
  {| pws := l; pinj := pinj s; pmsg := pmsg s; pmain := pmain s; pmtok := pmtok s; pnet := pnet s;
     ppanic := ppanic s; preads := preads s; psched := psched s; pran := pran s |}.
Definition set_w (s : pstate) (j : nat) (w : pworker) : pstate := set_ws s (lupd (pws s) j w).
Definition set_inj (s : pstate) (n : nat) : pstate :=
  {| pws := pws s; pinj := n; pmsg := pmsg s; pmain := pmain s; pmtok := pmtok s; pnet := pnet s;
     ppanic := ppanic s; preads := preads s; psched := psched s; pran := pran s |}.
Definition set_msg (s : pstate) (m : Z) : pstate :=
  {| pws := pws s; pinj := pinj s; pmsg := m; pmain := pmain s; pmtok := pmtok s; pnet := pnet s;
     ppanic := ppanic s; preads := preads s; psched := psched s; pran := pran s |}.
Definition set_main (s : pstate) (m : mpc) : pstate :=
  {| pws := pws s; pinj := pinj s; pmsg := pmsg s; pmain := m; pmtok := pmtok s; pnet := pnet s;
     ppanic := ppanic s; preads := preads s; psched := psched s; pran := pran s |}.
Definition set_mtok (s : pstate) (b : bool) : pstate :=
  {| pws := pws s; pinj := pinj s; pmsg := pmsg s; pmain := pmain s; pmtok := b; pnet := pnet s;
     ppanic := ppanic s; preads := preads s; psched := psched s; pran := pran s |}.
Definition set_net (s : pstate) (z : Z) : pstate :=
  {| pws := pws s; pinj := pinj s; pmsg := pmsg s; pmain := pmain s; pmtok := pmtok s; pnet := z;
     ppanic := ppanic s; preads := preads s; psched := psched s; pran := pran s |}.
Definition add_panic (s : pstate) : pstate :=
  {| pws := pws s; pinj := pinj s; pmsg := pmsg s; pmain := pmain s; pmtok := pmtok s; pnet := pnet s;
     ppanic := S (ppanic s); preads := preads s; psched := psched s; pran := pran s |}.
Definition add_read (s : pstate) : pstate :=
  {| pws := pws s; pinj := pinj s; pmsg := pmsg s; pmain := pmain s; pmtok := pmtok s; pnet := pnet s;
     ppanic := ppanic s; preads := (pmsg s, pnet s) :: preads s; psched := psched s; pran := pran s |}.

Definition add_sched (s : pstate) : pstate :=
  {| pws := pws s; pinj := pinj s; pmsg := pmsg s; pmain := pmain s; pmtok := pmtok s; pnet := pnet s;
     ppanic := ppanic s; preads := preads s; psched := S (psched s); pran := pran s |}.
Definition add_ran (s : pstate) : pstate :=
  {| pws := pws s; pinj := pinj s; pmsg := pmsg s; pmain := pmain s; pmtok := pmtok s; pnet := pnet s;
     ppanic := ppanic s; preads := preads s; psched := psched s; pran := S (pran s) |}.

Definition acts (s : pstate) : list bool := map wact (pws s).
Definition all_inactive (l : list bool) : bool := forallb negb l.
(* active_workers == 1 << j *)
Fixpoint only_bit (l : list bool) (j : nat) : bool :=
  match l with
  | [] => true
  | b :: r => match j with
              | O => b && all_inactive r
              | S j' => negb b && only_bit r j'
              end
  end.
(* trailing_ones *)
Definition first_idle (l : list bool) : option nat := lfind_idx negb l 0.
Fixpoint bools_eqb (a b : list bool) : bool :=
  match a, b with
  | [], [] => true
  | x :: a', y :: b' => Bool.eqb x y && bools_eqb a' b'
  | _, _ => false
  end.

(* choices left to the scheduler / to the task being run *)
Inductive pchoice :=
  | PNone
  | PPop (k : nat)                  (* WSearch: pop a bucket of k tasks *)
  | PSteal (v k : nat)              (* WSearch: steal k tasks from worker v *)
  | PGiveUp                         (* WSearch: back to the barrier *)
  | PCnt (d : Z)                    (* WTask: sends minus receives performed by the task *)
  | PWake                           (* WTask: a task is woken: schedule_task *)
  | PDone                           (* WTask: the poll returns *)
  | PPushLocal                      (* WSched1: local_queue.push *)
  | PDrain (k : nat)                (* WSched1: local_queue.drain (k tasks to the hand) *)
  | PPushInj (k : nat)              (* WSched1: injector.push_bucket / insert_task *)
  | PNext                           (* WSched1 -> WSched2 (nothing left in hand) *)
  | PActivate (v : nat)             (* WSched2: activate_worker_relaxed picks v *)
  | PSkip.                          (* WSched2: no activation *)

Inductive plabel :=
  | LW (j : nat) (c : pchoice)      (* worker j performs its next access *)
  | LM                              (* the main thread performs its next access *)
  | LSpawn                          (* the main thread spawns a task (outside run) *)
  | LRunCall.                       (* the main thread calls Executor::run *)

Definition exec_bop (s : pstate) (j : nat) (w : pworker) (o : bop) (cont : ppc) : option pstate :=
  match o with
  | BUpdate => Some (set_msg (set_w s j (set_pc (set_cnt w 0) cont)) (pmsg s + wcnt w))
  | BPark => if wtok w then Some (set_w s j (set_pc (set_tok w false) cont)) else None
  | BSetAllInactive =>
      let s1 := set_ws s (map (fun x => set_act x false) (pws s)) in
      Some (set_w s1 j (set_pc (set_act w false) cont))
  | BUnparkMain => Some (set_mtok (set_w s j (set_pc w cont)) true)
  | BBeginSearch => Some (set_w s j (set_pc w cont))
  end.

Definition worker_step (B : barrier) (s : pstate) (j : nat) (w : pworker) (c : pchoice) : option pstate :=
  match wpc w with
  | WPre (o :: r) => exec_bop s j w o (WPre r)
  | WPre [] => Some (set_w s j (set_pc w WTry))
  | WTry =>
      if negb (wact w) then Some (add_panic s)
      else if only_bit (acts s) j then Some (set_w s j (set_pc w WChk))
      else Some (set_w s j (set_pc (set_act w false) (WPost (b_inactive B))))
  | WChk =>
      if Nat.eqb (pinj s) 0 then Some (set_w s j (set_pc w (WPost (b_last_empty B))))
      else Some (set_w s j (set_pc w (WPost (b_last_busy B))))
  | WPost (o :: r) => exec_bop s j w o (WPost r)
  | WPost [] => Some (set_w s j (set_pc w WSearch))
  | WSearch =>
      match c with
      | PPop k => if (1 <=? k) && (k <=? pinj s)
                  then Some (set_inj (set_w s j (set_pc (set_hand w (whand w + k)) WExt)) (pinj s - k))
                  else None
      | PSteal v k =>
          if Nat.eqb v j then None else
          match nth_error (pws s) v with
          | Some x => if wslot w then Some (add_panic s)    (* assert!(prev_task.is_none()) *)
                      else if (1 <=? k) && (k <=? wlq x)
                      then let s1 := set_w s v (set_lq x (wlq x - k)) in
                           Some (set_w s1 j (set_pc (set_slot (set_lq w (wlq w + (k - 1))) true) WRun))
                      else None
          | None => None
          end
      | PGiveUp => Some (set_w s j (set_pc w (WPre (b_pre B))))
      | _ => None
      end
  | WExt => Some (set_w s j (set_pc (set_hand (set_lq w (wlq w + whand w)) 0) WRun))
  | WRun =>
      if wslot w then Some (add_ran (set_w s j (set_pc (set_slot w false) WTask)))
      else match wlq w with
           | S n => Some (add_ran (set_w s j (set_pc (set_lq w n) WTask)))
           | O => Some (set_w s j (set_pc w WSearch))
           end
  | WTask =>
      match c with
      | PCnt d => Some (set_net (set_w s j (set_cnt w (wcnt w + d))) (pnet s + d))
      | PWake => if wslot w then Some (add_sched (set_w s j (set_pc (set_hand w (S (whand w))) WSched1)))
                 else Some (add_sched (set_w s j (set_slot w true)))
      | PDone => Some (set_w s j (set_pc w WRun))
      | _ => None
      end
  | WSched1 =>
      match c with
      | PPushLocal => match whand w with
                      | S h => Some (set_w s j (set_hand (set_lq w (S (wlq w))) h))
                      | O => None
                      end
      | PDrain k => if k <=? wlq w then Some (set_w s j (set_hand (set_lq w (wlq w - k)) (whand w + k))) else None
      | PPushInj k => if (1 <=? k) && (k <=? whand w)
                      then Some (set_inj (set_w s j (set_hand w (whand w - k))) (pinj s + k)) else None
      | PNext => match whand w with O => Some (set_w s j (set_pc w WSched2)) | S _ => None end
      | _ => None
      end
  | WSched2 =>
      match c with
      | PActivate v => if v <? length (pws s) then Some (set_w s j (set_pc w (WAct v))) else None
      | PSkip => Some (set_w s j (set_pc w WTask))
      | _ => None
      end
  | WAct v =>
      match nth_error (pws s) v with
      | Some x => if wact x then Some (set_w s j (set_pc w WSched2))
                  else if Nat.eqb v j then Some (set_w s j (set_pc (set_act w true) (WUnpark v)))
                  else Some (set_w (set_w s v (set_act x true)) j (set_pc w (WUnpark v)))
      | None => None
      end
  | WUnpark v =>
      match nth_error (pws s) v with
      | Some x => if Nat.eqb v j then Some (set_w s j (set_pc (set_tok w true) WTask))
                  else Some (set_w (set_w s v (set_tok x true)) j (set_pc w WTask))
      | None => None
      end
  end.

Definition main_step (s : pstate) : option pstate :=
  match pmain s with
  | MIdle => None
  | MAct a =>
      match first_idle a with
      | None => if bools_eqb (acts s) a then Some (set_main s MLoop) else Some (set_main s (MAct (acts s)))
      | Some f =>
          match nth_error (pws s) f with
          | Some x => if wact x then Some (set_main s (MAct (acts s)))
                      else Some (set_main (set_w s f (set_act x true)) (MUnpark f))
          | None => None
          end
      end
  | MUnpark v =>
      match nth_error (pws s) v with
      | Some x => Some (set_main (set_w s v (set_tok x true)) MLoop)
      | None => None
      end
  | MLoop => if all_inactive (acts s) then Some (set_main s MRead) else Some (set_main s MPark)
  | MPark => if pmtok s then Some (set_main (set_mtok s false) MLoop) else None
  | MRead => Some (set_main (add_read s) MIdle)
  end.

Definition p_step (B : barrier) (s : pstate) (l : plabel) : option pstate :=
  match l with
  | LW j c => match nth_error (pws s) j with Some w => worker_step B s j w c | None => None end
  | LM => main_step s
  | LSpawn => match pmain s with MIdle => Some (add_sched (set_inj s (S (pinj s)))) | _ => None end
  | LRunCall => match pmain s with MIdle => Some (set_main s (MAct (acts s))) | _ => None end
  end.

Fixpoint p_run (B : barrier) (s : pstate) (ls : list plabel) : pstate :=
  match ls with
  | [] => s
  | l :: r => match p_step B s l with Some s' => p_run B s' r | None => p_run B s r end
  end.

(* the barrier of the repaired tree and of the pinned tree *)
Definition barrier_fixed : barrier :=
  {| b_pre := [BUpdate]; b_inactive := [BPark];
     b_last_empty := [BSetAllInactive; BUnparkMain; BPark]; b_last_busy := [BBeginSearch] |}.
Definition barrier_pinned : barrier :=
  {| b_pre := []; b_inactive := [BUpdate; BPark];
     b_last_empty := [BSetAllInactive; BUpdate; BUnparkMain; BPark]; b_last_busy := [BBeginSearch] |}.

(* what the property is about *)
Definition in_barrier (pc : ppc) : bool :=
  match pc with WPre _ | WTry | WChk | WPost _ => true | _ => false end.
(* no task anywhere, no task being run *)
Definition no_work (w : pworker) : Prop :=
  wlq w = 0 /\ wslot w = false /\ whand w = 0 /\ in_barrier (wpc w) = true.
Definition quiescent (s : pstate) : Prop := pinj s = 0 /\ forall j, no_work (W s j).

(* executable versions, for the search for a failing schedule (ocaml/driver.ml: poolsearch) *)
Definition p_quiescentb (s : pstate) : bool :=
  Nat.eqb (pinj s) 0 &&
  forallb (fun w => Nat.eqb (wlq w) 0 && negb (wslot w) && Nat.eqb (whand w) 0 && in_barrier (wpc w)) (pws s).
Definition p_bad (s : pstate) : bool :=
  (0 <? ppanic s) || existsb (fun mk => negb (Z.eqb (fst mk) (snd mk))) (preads s) ||
  match pmain s with
  | MRead => negb (Z.eqb (pmsg s) (pnet s)) || negb (p_quiescentb s)
  | _ => false
  end.
