(* Model of nexosim/src/util/indexed_priority_queue.rs: the actual algorithm
   (array heap cross-indexed with a slab, free list, epochs).  A Rust panic
   (out-of-bounds index, unwrap of the wrong node kind) is the result None. *)
Require Import NX.Base.Prelude.

Section IPQ.
  Variable V : Type.

  Record hitem := { hkey : key; hepoch : N; hslab : nat }.
  Inductive node := FreeNode (next : option nat) | HeapNode (v : V) (hidx : nat).
  Record ipq := { heap : list hitem; slab : list node; first_free : option nat; inext : N }.
  Record ikey := { kslab : nat; kepoch : N }.

  Definition ipq_empty : ipq := {| heap := []; slab := []; first_free := None; inext := 0%N |}.

  (* derive(PartialOrd) on UniqueKey { key, epoch }: lexicographic *)
  Definition ukey_ltb (a b : hitem) : bool :=
    key_ltb (hkey a) (hkey b) || (key_eqb (hkey a) (hkey b) && N.ltb (hepoch a) (hepoch b)).
  Definition ukey_leb (a b : hitem) : bool := negb (ukey_ltb b a).

  Fixpoint upd {A} (l : list A) (i : nat) (x : A) : option (list A) :=
    match l, i with
    | [], _ => None
    | _ :: r, O => Some (x :: r)
    | y :: r, S i' => match upd r i' x with Some r' => Some (y :: r') | None => None end
    end.

  Definition bind {A B} (o : option A) (f : A -> option B) : option B :=
    match o with Some a => f a | None => None end.
  Notation "x <- e ;; f" := (bind e (fun x => f)) (at level 61, e at next level, right associativity).

  (* *self.slab[i].unwrap_heap_index_mut() = h *)
  Definition set_hidx (sl : list node) (i h : nat) : option (list node) :=
    n <- nth_error sl i ;;
    match n with
    | HeapNode v _ => upd sl i (HeapNode v h)
    | FreeNode _ => None
    end.

  Fixpoint sift_up (fuel : nat) (hp : list hitem) (sl : list node) (item : hitem) (child : nat)
    : option (list hitem * list node) :=
    match fuel with
    | O => None
    | S fuel' =>
        if Nat.eqb child 0 then
          hp' <- upd hp child item ;; sl' <- set_hidx sl (hslab item) child ;; Some (hp', sl')
        else
          let parent := Nat.div (child - 1) 2 in
          p <- nth_error hp parent ;;
          if negb (ukey_ltb item p) then
            hp' <- upd hp child item ;; sl' <- set_hidx sl (hslab item) child ;; Some (hp', sl')
          else
            hp' <- upd hp child p ;;
            sl' <- set_hidx sl (hslab p) child ;;
            sift_up fuel' hp' sl' item parent
    end.

  Fixpoint sift_down (fuel : nat) (hp : list hitem) (sl : list node) (item : hitem) (parent : nat)
    : option (list hitem * list node) :=
    match fuel with
    | O => None
    | S fuel' =>
        let child := 2 * parent + 1 in
        if Nat.ltb child (length hp) then
          c0 <- nth_error hp child ;;
          let child' := match nth_error hp (child + 1) with
                        | Some c1 => if ukey_ltb c1 c0 then child + 1 else child
                        | None => child
                        end in
          c <- nth_error hp child' ;;
          if ukey_leb item c then
            hp' <- upd hp parent item ;; sl' <- set_hidx sl (hslab item) parent ;; Some (hp', sl')
          else
            hp' <- upd hp parent c ;;
            sl' <- set_hidx sl (hslab c) parent ;;
            sift_down fuel' hp' sl' item child'
        else
          hp' <- upd hp parent item ;; sl' <- set_hidx sl (hslab item) parent ;; Some (hp', sl')
    end.

  Definition ipq_insert (q : ipq) (k : key) (v : V) : option (ipq * ikey) :=
    let epoch := inext q in
    r <- match first_free q with
         | Some idx =>
             n <- nth_error (slab q) idx ;;
             match n with
             | FreeNode nx => sl <- upd (slab q) idx (HeapNode v 0) ;; Some (sl, nx, idx)
             | HeapNode _ _ => None
             end
         | None => Some (slab q ++ [HeapNode v 0], None, length (slab q))
         end ;;
    let '(sl, ff, slab_idx) := r in
    let heap_idx := length (heap q) in
    let it0 := {| hkey := k; hepoch := epoch; hslab := 0 |} in
    let it := {| hkey := k; hepoch := epoch; hslab := slab_idx |} in
    r2 <- sift_up (S (length (heap q) + 1)) (heap q ++ [it0]) sl it heap_idx ;;
    let '(hp', sl') := r2 in
    Some ({| heap := hp'; slab := sl'; first_free := ff; inext := (epoch + 1)%N |},
          {| kslab := slab_idx; kepoch := epoch |}).

  Definition ipq_peek (q : ipq) : option (option (key * V)) :=
    match heap q with
    | [] => Some None
    | it :: _ =>
        n <- nth_error (slab q) (hslab it) ;;
        match n with HeapNode v _ => Some (Some (hkey it, v)) | FreeNode _ => None end
    end.

  Definition ipq_peek_key (q : ipq) : option key :=
    match heap q with [] => None | it :: _ => Some (hkey it) end.

  Definition ipq_pull (q : ipq) : option (option (key * V) * ipq) :=
    match heap q with
    | [] => Some (None, q)
    | it :: _ =>
        let top := hslab it in
        n <- nth_error (slab q) top ;;
        match n with
        | FreeNode _ => None
        | HeapNode v _ =>
            sl <- upd (slab q) top (FreeNode (first_free q)) ;;
            let last := List.last (heap q) it in
            let hp := removelast (heap q) in
            if Nat.eqb (hslab last) top then
              Some (Some (hkey it, v), {| heap := hp; slab := sl; first_free := Some top; inext := inext q |})
            else
              r <- sift_down (S (length hp)) hp sl last 0 ;;
              let '(hp', sl') := r in
              Some (Some (hkey it, v), {| heap := hp'; slab := sl'; first_free := Some top; inext := inext q |})
        end
    end.

  Definition ipq_extract (q : ipq) (k : ikey) : option (option (key * V) * ipq) :=
    match nth_error (slab q) (kslab k) with
    | None | Some (FreeNode _) => Some (None, q)
    | Some (HeapNode v hidx) =>
        it <- nth_error (heap q) hidx ;;
        if negb (N.eqb (hepoch it) (kepoch k)) then Some (None, q)
        else
          sl <- upd (slab q) (kslab k) (FreeNode (first_free q)) ;;
          match heap q with
          | [] => None
          | h0 :: _ =>
              let last := List.last (heap q) h0 in
              let hp := removelast (heap q) in
              match nth_error hp hidx with
              | Some cur =>
                  r <- (if ukey_ltb last cur then sift_up (S (length hp)) hp sl last hidx
                        else sift_down (S (length hp)) hp sl last hidx) ;;
                  let '(hp', sl') := r in
                  Some (Some (hkey it, v),
                        {| heap := hp'; slab := sl'; first_free := Some (kslab k); inext := inext q |})
              | None =>
                  Some (Some (hkey it, v),
                        {| heap := hp; slab := sl; first_free := Some (kslab k); inext := inext q |})
              end
          end
    end.

  (* ---------------- operation sequences ---------------- *)
  Inductive ipq_op := IInsert (k : key) (v : V) | IPull | IPeek | IPeekKey | IExtract (n : nat) | ILen.
  Inductive ipq_res := IRUnit | IRNone | IRSome (k : key) (v : V) | IRKey (k : key) | IRLen (n : nat) | IRPanic.

  Definition ires_of (o : option (key * V)) : ipq_res :=
    match o with None => IRNone | Some (k, v) => IRSome k v end.

  (* state of a run: the queue and the keys issued so far (the n-th insert's key) *)
  Definition ipq_step (st : ipq * list ikey) (o : ipq_op) : option ((ipq * list ikey) * ipq_res) :=
    let '(q, ks) := st in
    match o with
    | IInsert k v => r <- ipq_insert q k v ;; let '(q', ik) := r in Some ((q', ks ++ [ik]), IRUnit)
    | IPull => r <- ipq_pull q ;; let '(x, q') := r in Some ((q', ks), ires_of x)
    | IPeek => x <- ipq_peek q ;; Some ((q, ks), ires_of x)
    | IPeekKey => Some ((q, ks), match ipq_peek_key q with Some k => IRKey k | None => IRNone end)
    | IExtract n =>
        match nth_error ks n with
        | None => Some ((q, ks), IRNone)
        | Some ik => r <- ipq_extract q ik ;; let '(x, q') := r in Some ((q', ks), ires_of x)
        end
    | ILen => Some ((q, ks), IRLen (length (heap q)))
    end.

  Fixpoint ipq_run (st : ipq * list ikey) (ops : list ipq_op) : list ipq_res :=
    match ops with
    | [] => []
    | o :: r => match ipq_step st o with
                | Some (st', x) => x :: ipq_run st' r
                | None => [IRPanic]
                end
    end.
End IPQ.


Arguments FreeNode {V}. Arguments HeapNode {V}.
Arguments heap {V}. Arguments slab {V}. Arguments first_free {V}. Arguments inext {V}.
Arguments ipq_empty {V}. Arguments ipq_insert {V}. Arguments ipq_peek {V}. Arguments ipq_peek_key {V}.
Arguments ipq_pull {V}. Arguments ipq_extract {V}.
Arguments IInsert {V}. Arguments IPull {V}. Arguments IPeek {V}. Arguments IPeekKey {V}.
Arguments IExtract {V}. Arguments ILen {V}.
Arguments IRUnit {V}. Arguments IRNone {V}. Arguments IRSome {V}. Arguments IRKey {V}. Arguments IRLen {V}. Arguments IRPanic {V}.
Arguments ipq_step {V}. Arguments ipq_run {V}. Arguments sift_up {V}. Arguments sift_down {V}. Arguments set_hidx {V}.
