(* The decoded state word after each operation of a run (None: the operation was
   not enabled in the model) - used to replay real traces of executor/task.rs
   in the model (tools/taskreplay.py). *)
Require Import NX.Base.Prelude NX.Model.TaskSM.

Definition ts_obs (s : ts) : list nat :=
  [wake s; refs s; (if closed s then 1 else 0); (if polling s then 1 else 0);
   futdrops s; outdrops s; deallocs s; badpoll s + badrun s + badfree s].

Fixpoint ts_trace (s : ts) (ops : list top) : list (option (list nat)) :=
  match ops with
  | [] => []
  | o :: r => match ts_step s o with
              | Some s' => Some (ts_obs s') :: ts_trace s' r
              | None => None :: ts_trace s r
              end
  end.
