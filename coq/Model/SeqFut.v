(* SeqFut.v — util/seq_futures.rs: SeqFuture::poll.

   All actions scheduled for one time by one origin are chained in one SeqFuture (simulation.rs) whose
   poll is

       while Pin::new(&mut this.inner[this.idx]).poll(cx).is_ready() { BODY }
       Poll::Pending

   The BODY is translated from the source on every run (translator T7, tools/gen_seqfut.py ->
   gen/SeqFutProg.v) into the instructions below; the loop shape itself is compared textually by the
   translator.  A sub-future is abstracted to the number k of polls that return Pending before the one
   that returns Ready (its wake-ups are the business of the executor, C13/C05); polling it again after it
   returned Ready is a fault (`bad`), indexing past the end is the panic of the real code (`oob`). *)
Require Import NX.Base.Prelude NX.Base.ListX.

Inductive sq_instr :=
  | QInc            (* this.idx += 1; *)
  | QRetIfDone.     (* if this.idx == this.inner.len() { return Poll::Ready(()); } *)

Record sq_state := {
  qidx : nat;           (* this.idx *)
  qcur : nat;           (* polls already made of inner[idx] *)
  qtrace : list nat;    (* indices of the sub-futures polled so far, oldest first *)
  qbad : bool;          (* a sub-future was polled after it had returned Ready *)
  qoob : bool           (* inner[idx] out of bounds *)
}.

Definition sq_init : sq_state := {| qidx := 0; qcur := 0; qtrace := []; qbad := false; qoob := false |}.

(* the body of the loop; true = the function returns Poll::Ready *)
Fixpoint sq_body (B : list sq_instr) (len : nat) (st : sq_state) : sq_state * bool :=
  match B with
  | [] => (st, false)
  | QInc :: r =>
      sq_body r len {| qidx := S (qidx st); qcur := 0; qtrace := qtrace st; qbad := qbad st; qoob := qoob st |}
  | QRetIfDone :: r => if Nat.eqb (qidx st) len then (st, true) else sq_body r len st
  end.

(* one call of SeqFuture::poll; ks = pending counts of the sub-futures; result: new state, Ready? *)
Fixpoint sq_poll (fuel : nat) (B : list sq_instr) (ks : list nat) (st : sq_state) : sq_state * bool :=
  match fuel with
  | O => (st, false)
  | S f =>
      match nth_error ks (qidx st) with
      | None => ({| qidx := qidx st; qcur := qcur st; qtrace := qtrace st; qbad := qbad st; qoob := true |}, false)
      | Some k =>
          let st1 := {| qidx := qidx st; qcur := S (qcur st); qtrace := qtrace st ++ [qidx st];
                        qbad := qbad st || Nat.ltb k (qcur st); qoob := qoob st |} in
          if Nat.ltb (qcur st) k then (st1, false)          (* the sub-future is pending *)
          else
            match sq_body B (length ks) st1 with
            | (st2, true) => (st2, true)
            | (st2, false) => sq_poll f B ks st2
            end
      end
  end.

(* the executor polls the SeqFuture until it is Ready (at most n times) *)
Fixpoint sq_polls (n : nat) (B : list sq_instr) (ks : list nat) (st : sq_state) : sq_state * bool :=
  match n with
  | O => (st, false)
  | S n' =>
      match sq_poll (S (S (length ks))) B ks st with
      | (st1, true) => (st1, true)
      | (st1, false) => if qoob st1 then (st1, false) else sq_polls n' B ks st1
      end
  end.

(* what must happen: future i is polled k_i + 1 times, then future i+1, ... *)
Fixpoint sq_expected (i : nat) (ks : list nat) : list nat :=
  match ks with
  | [] => []
  | k :: r => repeat i (S k) ++ sq_expected (S i) r
  end.

Definition sum_list (l : list nat) : nat := fold_right Nat.add 0 l.

Fixpoint list_nat_eqb (a b : list nat) : bool :=
  match a, b with
  | [], [] => true
  | x :: r, y :: s => Nat.eqb x y && list_nat_eqb r s
  | _, _ => false
  end.

(* executable form of the specification, for one list of sub-futures *)
Definition sq_check (B : list sq_instr) (ks : list nat) : bool :=
  let n := S (sum_list ks) in
  let '(st, rdy) := sq_polls n B ks sq_init in
  let '(_, early) := sq_polls (sum_list ks) B ks sq_init in
  rdy && negb early && list_nat_eqb (qtrace st) (sq_expected 0 ks) && negb (qbad st) && negb (qoob st).

Definition seqfut_fixed : list sq_instr := [QInc; QRetIfDone].
(* variants used as refutation examples *)
Definition seqfut_skip : list sq_instr := [QInc; QInc; QRetIfDone].      (* skips every other future *)
Definition seqfut_norecheck : list sq_instr := [QInc].                   (* never returns Ready: runs off the end *)
