(* Model of the blocking protocol of channel.rs (the mailbox of a model): any number of senders running
   Sender::send, the receiver running Receiver::recv, over a bounded queue, at the granularity of one
   shared access per step.

   - the queue (channel/queue.rs, proved in QueueConc.v) is abstracted to two counters: `cocc` = occupied
     slots (a slot is freed when the receiver drops the message it borrowed, not when it pops it) and
     `cavail` = messages pushed and not yet popped;
   - async_event::Event (external crate; senders): wait_until(pred) = { remove own notifier from the wait
     set; pred?; insert the notifier; pred? - on success `cancel` (remove the notifier, or, if it was
     already notified, notify another waiter); otherwise Pending }, cnotify_one = remove one notifier from
     the wait set and wake its task;
   - diatomic_waker (external crate; the receiver): wait_until(pred) = { pred?; register; pred?; Pending },
     notify = wake the registered waker if any.
   The two external primitives are TRUSTED to behave as modelled here (their sources were read, not verified).

   What the receiver does between a successful pop and the execution of the message, and what a csender
   does after a successful push, are PROGRAMS: parameters of the model generated from channel.rs by
   tools/gen_chan.py (gen/ChanProg.v).  Closing the channel is not modelled. *)
Require Import NX.Base.Prelude NX.Base.ListX.

(* RNotifyMaybe: a cnotify_one under a condition the translator does not interpret (it may or may not happen) *)
Inductive rop := RCountDec | RTake | RRelease | RNotifyOne | RNotifyMaybe.
Inductive sop := SNotifyRecv | SCountInc.
Record chan_prog := { cp_recv : list rop; cp_send : list sop }.

Inductive spc :=
  | SIdle                      (* not sending *)
  | SPoll                      (* wait_until is polled: remove own notifier from the wait set *)
  | SCheck1                    (* first evaluation of the predicate: queue.push *)
  | SIns                       (* insert the notifier into the wait set *)
  | SCheck2                    (* second evaluation of the predicate *)
  | SCancel                    (* success on the second evaluation: cancel the notifier *)
  | SSleep                     (* Poll::Pending *)
  | SPost (ops : list sop).    (* the push succeeded *)

Record csender := {
  spc_ : spc;
  sin : bool;                  (* the notifier is in the wait set *)
  swk : bool;                  (* the task's waker was called since it last started a poll *)
  sh : bool                    (* ghost: holds a notification (was picked by cnotify_one, has not acted on it yet) *)
}.

Inductive rpc :=
  | RCheck1 | RReg | RCheck2 | RSleep
  | RGot (ops : list rop)      (* a message was popped *)
  | RHandle.                   (* awaiting the future of the message: arbitrary duration *)

Record cstate := {
  ccap : nat;
  cocc : nat;                   (* occupied slots *)
  cavail : nat;                 (* pushed, not yet popped *)
  csnd : list csender;
  rpc_ : rpc;
  rreg : bool;                 (* the receiver's waker is registered *)
  rwk : bool;                  (* the receiver's waker was called *)
  rpend : bool;                (* ghost: the receiver has freed a slot and not yet executed its cnotify_one *)
  ccount : Z;                  (* sum of the THREAD_MSG_COUNT contributions: +1 / -1 *)
  cpushed : nat; cpopped : nat (* ghost totals *)
}.

Definition csdef : csender := {| spc_ := SIdle; sin := false; swk := false; sh := false |}.

Definition c_init (capacity nsenders : nat) : cstate :=
  {| ccap := capacity; cocc := 0; cavail := 0; csnd := repeat csdef nsenders; rpc_ := RCheck1; rreg := false; rwk := false;
     rpend := false; ccount := 0; cpushed := 0; cpopped := 0 |}.

Definition S_ (s : cstate) (x : nat) : csender := nth x (csnd s) csdef.

Definition cmk_s (pc : spc) (i w h : bool) : csender := {| spc_ := pc; sin := i; swk := w; sh := h |}.

Definition cset_snd (s : cstate) (l : list csender) : cstate :=
  {| ccap := ccap s; cocc := cocc s; cavail := cavail s; csnd := l; rpc_ := rpc_ s; rreg := rreg s; rwk := rwk s;
     rpend := rpend s; ccount := ccount s; cpushed := cpushed s; cpopped := cpopped s |}.
Definition cset_s (s : cstate) (x : nat) (v : csender) : cstate := cset_snd s (lupd (csnd s) x v).
Definition cset_q (s : cstate) (o a : nat) : cstate :=
  {| ccap := ccap s; cocc := o; cavail := a; csnd := csnd s; rpc_ := rpc_ s; rreg := rreg s; rwk := rwk s;
     rpend := rpend s; ccount := ccount s; cpushed := cpushed s; cpopped := cpopped s |}.
Definition cset_r (s : cstate) (pc : rpc) (rg wk pd : bool) : cstate :=
  {| ccap := ccap s; cocc := cocc s; cavail := cavail s; csnd := csnd s; rpc_ := pc; rreg := rg; rwk := wk;
     rpend := pd; ccount := ccount s; cpushed := cpushed s; cpopped := cpopped s |}.
Definition cset_count (s : cstate) (c : Z) : cstate :=
  {| ccap := ccap s; cocc := cocc s; cavail := cavail s; csnd := csnd s; rpc_ := rpc_ s; rreg := rreg s; rwk := rwk s;
     rpend := rpend s; ccount := c; cpushed := cpushed s; cpopped := cpopped s |}.
Definition add_pushed (s : cstate) : cstate :=
  {| ccap := ccap s; cocc := cocc s; cavail := cavail s; csnd := csnd s; rpc_ := rpc_ s; rreg := rreg s; rwk := rwk s;
     rpend := rpend s; ccount := ccount s; cpushed := S (cpushed s); cpopped := cpopped s |}.
Definition add_popped (s : cstate) : cstate :=
  {| ccap := ccap s; cocc := cocc s; cavail := cavail s; csnd := csnd s; rpc_ := rpc_ s; rreg := rreg s; rwk := rwk s;
     rpend := rpend s; ccount := ccount s; cpushed := cpushed s; cpopped := S (cpopped s) |}.

(* Event::cnotify_one: y is the member of the wait set chosen by the implementation (None: empty set) *)
Definition cnotify_one (s : cstate) (y : option nat) : option cstate :=
  match y with
  | None => if existsb sin (csnd s) then None else Some s
  | Some y => match nth_error (csnd s) y with
              | Some v => if sin v then Some (cset_s s y (cmk_s (spc_ v) false true true)) else None
              | None => None
              end
  end.

(* the push attempt of the predicate *)
Definition ctry_push (s : cstate) : option cstate :=
  if cocc s <? ccap s then Some (add_pushed (cset_q s (S (cocc s)) (S (cavail s)))) else None.

Inductive clabel :=
  | LS (x : nat) (pick : option nat) (spurious : bool)   (* csender x takes its next step *)
  | LBegin (x : nat)                                     (* csender x starts a send *)
  | LR (pick : option nat) (spurious : bool)             (* the receiver takes its next step *)
  | LHandled.                                            (* the future of the message completes *)

Definition sender_step (P : chan_prog) (s : cstate) (x : nat) (v : csender) (pick : option nat) (spurious : bool) : option cstate :=
  match spc_ v with
  | SIdle => None
  | SPoll => Some (cset_s s x (cmk_s SCheck1 false false (sh v)))
  | SCheck1 =>
      match ctry_push s with
      | Some s' => Some (cset_s s' x (cmk_s (SPost (cp_send P)) (sin v) (swk v) false))
      | None => Some (cset_s s x (cmk_s SIns (sin v) (swk v) false))
      end
  | SIns => Some (cset_s s x (cmk_s SCheck2 true (swk v) (sh v)))
  | SCheck2 =>
      match ctry_push s with
      | Some s' => Some (cset_s s' x (cmk_s SCancel (sin v) (swk v) (sh v)))
      | None => Some (cset_s s x (cmk_s SSleep (sin v) (swk v) false))
      end
  | SCancel =>
      if sin v then Some (cset_s s x (cmk_s (SPost (cp_send P)) false (swk v) false))
      else match cnotify_one s pick with
           | Some s' => match nth_error (csnd s') x with
                        | Some v' => Some (cset_s s' x (cmk_s (SPost (cp_send P)) false (swk v') false))
                        | None => None
                        end
           | None => None
           end
  | SSleep => if swk v || spurious then Some (cset_s s x (cmk_s SPoll (sin v) false (sh v))) else None
  | SPost [] => Some (cset_s s x (cmk_s SIdle (sin v) (swk v) (sh v)))
  | SPost (SNotifyRecv :: r) =>
      let s1 := if rreg s then cset_r s (rpc_ s) false true (rpend s) else s in
      Some (cset_s s1 x (cmk_s (SPost r) (sin v) (swk v) (sh v)))
  | SPost (SCountInc :: r) => Some (cset_count (cset_s s x (cmk_s (SPost r) (sin v) (swk v) (sh v))) (ccount s + 1))
  end.

Definition recv_step (P : chan_prog) (s : cstate) (pick : option nat) (spurious : bool) : option cstate :=
  match rpc_ s with
  | RCheck1 => match cavail s with
               | S a => Some (add_popped (cset_r (cset_q s (cocc s) a) (RGot (cp_recv P)) (rreg s) (rwk s) (rpend s)))
               | O => Some (cset_r s RReg (rreg s) (rwk s) (rpend s))
               end
  | RReg => Some (cset_r s RCheck2 true false (rpend s))
  | RCheck2 => match cavail s with
               | S a => Some (add_popped (cset_r (cset_q s (cocc s) a) (RGot (cp_recv P)) false (rwk s) (rpend s)))
               | O => Some (cset_r s RSleep (rreg s) (rwk s) (rpend s))
               end
  | RSleep => if rwk s || spurious then Some (cset_r s RCheck1 (rreg s) false (rpend s)) else None
  | RGot [] => Some (cset_r s RHandle (rreg s) (rwk s) (rpend s))
  | RGot (RCountDec :: r) => Some (cset_count (cset_r s (RGot r) (rreg s) (rwk s) (rpend s)) (ccount s - 1))
  | RGot (RTake :: r) => Some (cset_r s (RGot r) (rreg s) (rwk s) (rpend s))
  | RGot (RRelease :: r) =>
      Some (cset_r (cset_q s (cocc s - 1) (cavail s)) (RGot r) (rreg s) (rwk s) (existsb (fun o => match o with RNotifyOne => true | _ => false end) r))
  | RGot (RNotifyOne :: r) =>
      match cnotify_one s pick with
      | Some s' => Some (cset_r s' (RGot r) (rreg s') (rwk s') false)
      | None => None
      end
  | RGot (RNotifyMaybe :: r) =>
      if spurious then match cnotify_one s pick with
                       | Some s' => Some (cset_r s' (RGot r) (rreg s') (rwk s') false)
                       | None => None
                       end
      else Some (cset_r s (RGot r) (rreg s) (rwk s) false)
  | RHandle => None
  end.

Definition c_step (P : chan_prog) (s : cstate) (l : clabel) : option cstate :=
  match l with
  | LS x pick sp => match nth_error (csnd s) x with Some v => sender_step P s x v pick sp | None => None end
  | LBegin x => match nth_error (csnd s) x with
                | Some v => match spc_ v with SIdle => Some (cset_s s x (cmk_s SPoll (sin v) false (sh v))) | _ => None end
                | None => None
                end
  | LR pick sp => recv_step P s pick sp
  | LHandled => match rpc_ s with RHandle => Some (cset_r s RCheck1 (rreg s) (rwk s) (rpend s)) | _ => None end
  end.

Fixpoint c_run (P : chan_prog) (s : cstate) (ls : list clabel) : cstate :=
  match ls with
  | [] => s
  | l :: r => match c_step P s l with Some s' => c_run P s' r | None => c_run P s r end
  end.

Definition chan_fixed : chan_prog :=
  {| cp_recv := [RCountDec; RTake; RRelease; RNotifyOne]; cp_send := [SNotifyRecv; SCountInc] |}.

(* executable check used by the search for a failing schedule (ocaml/driver.ml: chansearch): a state in which
   nothing more will happen on the senders' side although a csender sleeps in front of a free slot, or the
   receiver sleeps unwoken in front of a queued message that nobody is about to announce *)
Definition c_settled (s : cstate) : bool :=
  forallb (fun v => match spc_ v with SIdle => true | SSleep => negb (swk v) | _ => false end) (csnd s).
Definition c_bad (s : cstate) : bool :=
  (c_settled s && negb (rpend s) && existsb (fun v => match spc_ v with SSleep => true | _ => false end) (csnd s)
   && (cocc s <? ccap s)
   && match rpc_ s with RGot _ => false | _ => true end)
  || (match rpc_ s with RSleep => negb (rwk s) | _ => false end && (0 <? cavail s) && c_settled s).
