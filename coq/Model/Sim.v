(* Executable model of the simulation kernel (simulation.rs, scheduler.rs,
   sim_init.rs), of message passing between model tasks (channel.rs and the ports directory)
   and of the scheduling-independent part of the executors.

   A *bench* is a static description (models, scripts, connections, sinks);
   the state evolves by small steps, each the atomic channel-level action of
   one task ([LStart], [LOp], [LDeliver]); which enabled step comes next is
   the only nondeterminism (the executor's schedule). *)
Require Import NX.Base.Prelude NX.Base.ListX NX.Model.PQ NX.Model.Sink.

(* ------------------------------------------------------------------ *)
(* Static description                                                  *)

Inductive keep := KAll | KEven | KLt (c : Z).
Definition keep_ok (k : keep) (v : Z) : bool :=
  match k with KAll => true | KEven => Z.even v | KLt c => Z.ltb v c end.

Inductive target := TgtModel (m : nat) (input : nat) | TgtSink (s : nat).
(* output-port connection: plain (KAll,0), map (KAll,c), filter_map (k,c) *)
Record conn := { ckeep : keep; cadd : Z; ctgt : target }.
(* requestor-port connection to replier [qrep] of model [qmodel]; the request
   is filtered/mapped with (qkeep,qadd) and the reply mapped with +qradd *)
Record qconn := { qkeep : keep; qadd : Z; qmodel : nat; qrep : nat; qradd : Z }.

Inductive expr := EIn | EConst (c : Z) | EInPlus (c : Z).
Definition eval (e : expr) (v : Z) : Z :=
  match e with EIn => v | EConst c => c | EInPlus c => (v + c)%Z end.

Inductive dl := DAbs (t : Z) | DRel (d : Z).

Inductive op :=
  | OSend (port : nat) (e : expr)
  | OQuery (port : nat) (e : expr)
  | OSched (d : dl) (input : nat) (e : expr) (slot : option nat) (period : option Z)
  | OCancel (slot : nat)
  | OPanic (code : Z)
  (* ops of action tasks (never in user scripts) *)
  | OEvent (m : nat) (input : nat) (v : Z) (key : option nat)
  | OReq (m : nat) (rep : nat) (v : Z)
  | OBcast (src : nat) (v : Z).

Inductive placement := Added | Orphan | Dropped.

Record mspec := {
  mcap : nat;
  mplace : placement;
  mparent : option nat;          (* sub-model of ... *)
  mnamed : bool;                 (* false: empty name, shown as <unknown> *)
  minit : list op;
  mhandlers : list (list op);    (* by input index *)
  mrepliers : list (list op * Z);(* by replier index: script, reply = request + c *)
  mouts : list (list conn);
  mreqs : list (list qconn)
}.

Inductive sinkspec := SpecBuf (cap : nat) | SpecSlot.

Record bench := {
  bmodels : list mspec;
  bsinks : list sinkspec;
  bsources : list (list conn);     (* EventSource connection lists *)
  bclock : list (option Z);        (* scripted clock answers: None = Synchronized, Some lag *)
  btol : option Z;                 (* clock tolerance *)
  bt0 : Z;
  (* switches selecting the behaviour of the pinned tree before a fix: *)
  bugF1 : bool; bugF2 : bool; bugF3 : bool; bugF4 : bool
}.

(* ------------------------------------------------------------------ *)
(* Dynamic state                                                       *)

Inductive mkind :=
  | KEvent (key : option nat)
  | KRequest (requester : option nat) (slot : nat) (rep : nat) (radd : Z).

Record msg := { minp : nat; mval : Z; mkd : mkind }.

Inductive dtarget := DModel (m : nat) (g : msg) | DSink (s : nat) (v : Z).
Record delivery := { dtgt : dtarget; dthrow : bool }.

Record frame := {
  fpend : list delivery;          (* deliveries of the current op still to do *)
  fwait : list (option Z);        (* replies awaited by the current query *)
  frest : list op;
  fin : Z;                        (* incoming payload *)
  freply : option (option nat * nat * Z)  (* requester task, slot, reply value *)
}.

Inductive tkind := TKModel (m : nat) | TKAction.

Record task := {
  tk : tkind;
  tinit : bool;                   (* init still to run *)
  tfr : option frame;
  tdone : bool;
  tkeys : list (option nat)       (* the model's key slots *)
}.

Record action := {
  aid : N;
  aop : op;                       (* OEvent ... or OBcast ... *)
  akey : option nat;              (* Some k: is_cancelled reads flag k *)
  aperiod : option Z
}.

Inductive sinkst := StBuf (b : ebuf Z) | StSlot (s : eslot Z).

Inductive failure := FPanic (m : nat) (code : Z) | FNoRecipient (m : option nat).

Inductive entry :=
  | EInit (m : nat) (t : Z)
  | EHandler (m : nat) (input : nat) (v : Z) (t : Z)
  | EReplier (m : nat) (rep : nat) (v : Z) (t : Z)
  | EReplies (m : nat) (rs : list Z)
  | ESched (m : option nat) (ok : N)      (* 0 ok, 1 invalid time, 2 null period *)
  | EClock (t : Z)
  | ETime (t : Z).

Record state := {
  boxes : list (list msg);        (* mailbox contents, by model *)
  tasks : list task;
  inflight : Z;
  queue : pq action;
  cancelled : list bool;          (* by key id *)
  next_aid : N;
  now : Z;
  sinks : list sinkst;
  err : option failure;
  terminated : bool;
  clockpos : nat;
  dkeys : list (option nat);      (* driver key slots *)
  qreply : option Z;              (* reply slot of process_query *)
  log : list entry                (* most recent first *)
}.

(* field setters *)
Definition set_boxes (s : state) v : state := {| boxes := v; tasks := tasks s; inflight := inflight s; queue := queue s; cancelled := cancelled s; next_aid := next_aid s; now := now s; sinks := sinks s; err := err s; terminated := terminated s; clockpos := clockpos s; dkeys := dkeys s; qreply := qreply s; log := log s |}.
Definition set_tasks (s : state) v : state := {| boxes := boxes s; tasks := v; inflight := inflight s; queue := queue s; cancelled := cancelled s; next_aid := next_aid s; now := now s; sinks := sinks s; err := err s; terminated := terminated s; clockpos := clockpos s; dkeys := dkeys s; qreply := qreply s; log := log s |}.
Definition set_inflight (s : state) v : state := {| boxes := boxes s; tasks := tasks s; inflight := v; queue := queue s; cancelled := cancelled s; next_aid := next_aid s; now := now s; sinks := sinks s; err := err s; terminated := terminated s; clockpos := clockpos s; dkeys := dkeys s; qreply := qreply s; log := log s |}.
Definition set_queue (s : state) v : state := {| boxes := boxes s; tasks := tasks s; inflight := inflight s; queue := v; cancelled := cancelled s; next_aid := next_aid s; now := now s; sinks := sinks s; err := err s; terminated := terminated s; clockpos := clockpos s; dkeys := dkeys s; qreply := qreply s; log := log s |}.
Definition set_cancelled (s : state) v : state := {| boxes := boxes s; tasks := tasks s; inflight := inflight s; queue := queue s; cancelled := v; next_aid := next_aid s; now := now s; sinks := sinks s; err := err s; terminated := terminated s; clockpos := clockpos s; dkeys := dkeys s; qreply := qreply s; log := log s |}.
Definition set_next_aid (s : state) v : state := {| boxes := boxes s; tasks := tasks s; inflight := inflight s; queue := queue s; cancelled := cancelled s; next_aid := v; now := now s; sinks := sinks s; err := err s; terminated := terminated s; clockpos := clockpos s; dkeys := dkeys s; qreply := qreply s; log := log s |}.
Definition set_now (s : state) v : state := {| boxes := boxes s; tasks := tasks s; inflight := inflight s; queue := queue s; cancelled := cancelled s; next_aid := next_aid s; now := v; sinks := sinks s; err := err s; terminated := terminated s; clockpos := clockpos s; dkeys := dkeys s; qreply := qreply s; log := log s |}.
Definition set_sinks (s : state) v : state := {| boxes := boxes s; tasks := tasks s; inflight := inflight s; queue := queue s; cancelled := cancelled s; next_aid := next_aid s; now := now s; sinks := v; err := err s; terminated := terminated s; clockpos := clockpos s; dkeys := dkeys s; qreply := qreply s; log := log s |}.
Definition set_err (s : state) v : state := {| boxes := boxes s; tasks := tasks s; inflight := inflight s; queue := queue s; cancelled := cancelled s; next_aid := next_aid s; now := now s; sinks := sinks s; err := v; terminated := terminated s; clockpos := clockpos s; dkeys := dkeys s; qreply := qreply s; log := log s |}.
Definition set_terminated (s : state) v : state := {| boxes := boxes s; tasks := tasks s; inflight := inflight s; queue := queue s; cancelled := cancelled s; next_aid := next_aid s; now := now s; sinks := sinks s; err := err s; terminated := v; clockpos := clockpos s; dkeys := dkeys s; qreply := qreply s; log := log s |}.
Definition set_clockpos (s : state) v : state := {| boxes := boxes s; tasks := tasks s; inflight := inflight s; queue := queue s; cancelled := cancelled s; next_aid := next_aid s; now := now s; sinks := sinks s; err := err s; terminated := terminated s; clockpos := v; dkeys := dkeys s; qreply := qreply s; log := log s |}.
Definition set_dkeys (s : state) v : state := {| boxes := boxes s; tasks := tasks s; inflight := inflight s; queue := queue s; cancelled := cancelled s; next_aid := next_aid s; now := now s; sinks := sinks s; err := err s; terminated := terminated s; clockpos := clockpos s; dkeys := v; qreply := qreply s; log := log s |}.
Definition set_qreply (s : state) v : state := {| boxes := boxes s; tasks := tasks s; inflight := inflight s; queue := queue s; cancelled := cancelled s; next_aid := next_aid s; now := now s; sinks := sinks s; err := err s; terminated := terminated s; clockpos := clockpos s; dkeys := dkeys s; qreply := v; log := log s |}.
Definition set_log (s : state) v : state := {| boxes := boxes s; tasks := tasks s; inflight := inflight s; queue := queue s; cancelled := cancelled s; next_aid := next_aid s; now := now s; sinks := sinks s; err := err s; terminated := terminated s; clockpos := clockpos s; dkeys := dkeys s; qreply := qreply s; log := v |}.
Definition tset_tinit (t : task) v : task := {| tk := tk t; tinit := v; tfr := tfr t; tdone := tdone t; tkeys := tkeys t |}.
Definition tset_tfr (t : task) v : task := {| tk := tk t; tinit := tinit t; tfr := v; tdone := tdone t; tkeys := tkeys t |}.
Definition tset_tdone (t : task) v : task := {| tk := tk t; tinit := tinit t; tfr := tfr t; tdone := v; tkeys := tkeys t |}.
Definition tset_tkeys (t : task) v : task := {| tk := tk t; tinit := tinit t; tfr := tfr t; tdone := tdone t; tkeys := v |}.
Definition fset_fpend (f : frame) v : frame := {| fpend := v; fwait := fwait f; frest := frest f; fin := fin f; freply := freply f |}.
Definition fset_fwait (f : frame) v : frame := {| fpend := fpend f; fwait := v; frest := frest f; fin := fin f; freply := freply f |}.
Definition fset_frest (f : frame) v : frame := {| fpend := fpend f; fwait := fwait f; frest := v; fin := fin f; freply := freply f |}.

Definition add_log (s : state) (e : entry) : state := set_log s (e :: log s).

(* ------------------------------------------------------------------ *)
(* Names: the path of ancestors, root first.                           *)
Fixpoint mpath (b : bench) (fuel : nat) (m : nat) : list (option nat) :=
  match nth_error (bmodels b) m with
  | Some sp =>
      let me := if mnamed sp then Some m else None in
      match fuel, mparent sp with
      | S f, Some p => mpath b f p ++ [me]
      | _, _ => [me]
      end
  | None => [Some m]
  end.
Definition mname (b : bench) (m : nat) : list (option nat) := mpath b (length (bmodels b)) m.

(* origin id of a scheduling request: 0 = global scheduler, m+1 = model m *)
Definition origin_of (m : option nat) : N :=
  match m with None => 0%N | Some i => N.of_nat (S i) end.

(* ------------------------------------------------------------------ *)
(* Scheduling requests (GlobalScheduler::schedule_*_from)              *)

Definition dl_time (d : dl) (nw : Z) : Z :=
  match d with DAbs t => t | DRel x => (nw + x)%Z end.

Definition alloc_key (s : state) : state * nat :=
  (set_cancelled s (cancelled s ++ [false]), length (cancelled s)).

(* [check_period]: the *_periodic_event_from functions reject a null period
   before looking at the deadline; schedule_from (pre-built actions) does not
   look at the period at all on the pinned tree (bugF4). *)
Definition sched_request (s : state) (origin : N) (d : dl) (mkop : option nat -> op) (keyed : bool)
           (period : option Z) (check_period : bool) : state * N * option nat :=
  (* Duration is unsigned: on the represented domain p <= 0 is p = 0 (is_zero) *)
  let bad_period := match period with Some p => Z.leb p 0 | None => false end in
  if check_period && bad_period then (s, 2%N, None)
  else
    let t := dl_time d (now s) in
    if Z.leb t (now s) then (s, 1%N, None)
    else
      let '(s1, k) := if keyed then (let '(s', k) := alloc_key s in (s', Some k)) else (s, None) in
      let a := {| aid := next_aid s1; aop := mkop k; akey := k; aperiod := period |} in
      (set_next_aid (set_queue s1 (pq_insert (queue s1) (t, origin) a)) (next_aid s1 + 1)%N, 0%N, k).

Definition key_cancelled (s : state) (k : option nat) : bool :=
  match k with
  | None => false
  | Some i => match nth_error (cancelled s) i with Some b => b | None => false end
  end.

Definition cancel_key (s : state) (k : option nat) : state :=
  match k with
  | None => s
  | Some i => set_cancelled s (lupd (cancelled s) i true)
  end.

(* ------------------------------------------------------------------ *)
(* Steps of the message-passing layer                                  *)

Inductive label := LStart (t : nat) | LOp (t : nat) | LDeliver (t : nat) (i : nat).

Definition set_task (s : state) (t : nat) (x : task) : state := set_tasks s (lupd (tasks s) t x).

Definition empty_frame (ops : list op) (v : Z) (r : option (option nat * nat * Z)) : frame :=
  {| fpend := []; fwait := []; frest := ops; fin := v; freply := r |}.

Definition step_start (b : bench) (s : state) (t : nat) : option state :=
  match nth_error (tasks s) t with
  | None => None
  | Some x =>
      match tk x, tfr x, tdone x with
      | TKModel m, None, false =>
          match nth_error (bmodels b) m with
          | None => None
          | Some sp =>
              if tinit x then
                Some (add_log (set_task s t (tset_tfr (tset_tinit x false)
                                                      (Some (empty_frame (minit sp) 0 None))))
                              (EInit m (now s)))
              else
                match nth_error (boxes s) m with
                | Some (g :: rest) =>
                    let s1 := set_inflight (set_boxes s (lupd (boxes s) m rest)) (inflight s - 1)%Z in
                    match mkd g with
                    | KEvent key =>
                        if key_cancelled s key then
                          Some (set_task s1 t (tset_tfr x (Some (empty_frame [] (mval g) None))))
                        else
                          Some (add_log (set_task s1 t (tset_tfr x
                                  (Some (empty_frame (nth (minp g) (mhandlers sp) []) (mval g) None))))
                                  (EHandler m (minp g) (mval g) (now s)))
                    | KRequest r slot rep radd =>
                        let '(script, c) := nth rep (mrepliers sp) ([], 0%Z) in
                        Some (add_log (set_task s1 t (tset_tfr x
                                (Some (empty_frame script (mval g) (Some (r, slot, (mval g + c + radd)%Z))))))
                                (EReplier m rep (mval g) (now s)))
                    end
                | _ => None
                end
          end
      | _, _, _ => None
      end
  end.

Definition conn_deliveries (cs : list conn) (v : Z) : list delivery :=
  flat_map (fun c =>
    if keep_ok (ckeep c) v then
      match ctgt c with
      | TgtModel m i => [{| dtgt := DModel m {| minp := i; mval := (v + cadd c)%Z; mkd := KEvent None |};
                           dthrow := true |}]
      | TgtSink sk => [{| dtgt := DSink sk (v + cadd c)%Z; dthrow := true |}]
      end
    else []) cs.

Fixpoint query_deliveries (t : nat) (slot : nat) (qs : list qconn) (v : Z) : list delivery :=
  match qs with
  | [] => []
  | q :: r =>
      if keep_ok (qkeep q) v then
        {| dtgt := DModel (qmodel q) {| minp := 0; mval := (v + qadd q)%Z;
                                        mkd := KRequest (Some t) slot (qrep q) (qradd q) |};
           dthrow := true |} :: query_deliveries t (S slot) r v
      else query_deliveries t slot r v
  end.

Definition task_model (x : task) : option nat :=
  match tk x with TKModel m => Some m | TKAction => None end.

(* write a reply into the waiting slot of the requester *)
Definition deliver_reply (s : state) (r : option (option nat * nat * Z)) : state :=
  match r with
  | None => s
  | Some (None, _, v) => set_qreply s (Some v)
  | Some (Some rt, slot, v) =>
      match nth_error (tasks s) rt with
      | Some y => match tfr y with
                  | Some f => set_task s rt (tset_tfr y (Some (fset_fwait f (lupd (fwait f) slot (Some v)))))
                  | None => s
                  end
      | None => s
      end
  end.

Definition step_op (b : bench) (s : state) (t : nat) : option state :=
  match nth_error (tasks s) t with
  | None => None
  | Some x =>
      match tfr x with
      | None => None
      | Some f =>
          match fpend f with
          | _ :: _ => None
          | [] =>
              let setf (f' : frame) := set_task s t (tset_tfr x (Some f')) in
              match fwait f with
              | _ :: _ =>
                  if opt_all (fwait f) then
                    match task_model x with
                    | Some m => Some (add_log (setf (fset_fwait f [])) (EReplies m (opt_vals (fwait f))))
                    | None => Some (setf (fset_fwait f []))
                    end
                  else None
              | [] =>
                  match frest f with
                  | [] =>
                      (* the script is over: reply if this was a request, release the task *)
                      let s1 := match tk x with
                                | TKModel _ => set_task s t (tset_tfr x None)
                                | TKAction => set_task s t (tset_tdone (tset_tfr x None) true)
                                end in
                      Some (deliver_reply s1 (freply f))
                  | o :: rest =>
                      let f1 := fset_frest f rest in
                      match o, task_model x with
                      | OSend port e, Some m =>
                          match nth_error (bmodels b) m with
                          | Some sp => Some (setf (fset_fpend f1 (conn_deliveries (nth port (mouts sp) []) (eval e (fin f)))))
                          | None => None
                          end
                      | OQuery port e, Some m =>
                          match nth_error (bmodels b) m with
                          | Some sp =>
                              let ds := query_deliveries t 0 (nth port (mreqs sp) []) (eval e (fin f)) in
                              Some (setf (fset_fwait (fset_fpend f1 ds) (map (fun _ => None) ds)))
                          | None => None
                          end
                      | OSched d input e slot period, Some m =>
                          let v := eval e (fin f) in
                          let keyed := match slot with Some _ => true | None => false end in
                          let '(s1, code, k) :=
                            sched_request s (origin_of (Some m)) d (fun k => OEvent m input v k) keyed period true in
                          let x1 := match slot, k with
                                    | Some sl, Some _ => tset_tkeys x (lupd (tkeys x) sl k)
                                    | _, _ => x
                                    end in
                          Some (add_log (set_task s1 t (tset_tfr x1 (Some f1))) (ESched (Some m) code))
                      | OCancel sl, Some m =>
                          let k := nth sl (tkeys x) None in
                          let s1 := cancel_key s k in
                          Some (set_task s1 t (tset_tfr (tset_tkeys x (lupd (tkeys x) sl None)) (Some f1)))
                      | OPanic c, Some m => Some (set_err (setf f1) (Some (FPanic m c)))
                      | OEvent m' i v key, _ =>
                          Some (setf (fset_fpend f1
                            [{| dtgt := DModel m' {| minp := i; mval := v; mkd := KEvent key |}; dthrow := false |}]))
                      | OReq m' rep v, _ =>
                          Some (setf (fset_fpend f1
                            [{| dtgt := DModel m' {| minp := 0; mval := v; mkd := KRequest None 0 rep 0 |};
                                dthrow := false |}]))
                      | OBcast src v, _ =>
                          Some (setf (fset_fpend f1 (conn_deliveries (nth src (bsources b) []) v)))
                      | _, None => None
                      end
                  end
              end
          end
      end
  end.

Definition sink_write (k : sinkst) (v : Z) : sinkst :=
  match k with
  | StBuf bb => StBuf (ebuf_write bb v)
  | StSlot ss => StSlot (eslot_write ss v)
  end.

Definition step_deliver (b : bench) (s : state) (t i : nat) : option state :=
  match nth_error (tasks s) t with
  | None => None
  | Some x =>
      match tfr x with
      | None => None
      | Some f =>
          match nth_error (fpend f) i with
          | None => None
          | Some d =>
              let s0 := set_task s t (tset_tfr x (Some (fset_fpend f (ldel (fpend f) i)))) in
              match dtgt d with
              | DSink sk v =>
                  match nth_error (sinks s) sk with
                  | Some st => Some (set_sinks s0 (lupd (sinks s0) sk (sink_write st v)))
                  | None => Some s0
                  end
              | DModel m g =>
                  match nth_error (bmodels b) m, nth_error (boxes s) m with
                  | Some sp, Some q =>
                      match mplace sp with
                      | Dropped =>
                          if dthrow d then Some (set_err s0 (Some (FNoRecipient (task_model x))))
                          else Some s0
                      | _ =>
                          if Nat.ltb (length q) (mcap sp) then
                            Some (set_inflight (set_boxes s0 (lupd (boxes s0) m (q ++ [g]))) (inflight s0 + 1)%Z)
                          else None
                      end
                  | _, _ => None
                  end
              end
          end
      end
  end.

Definition net_step (b : bench) (s : state) (l : label) : option state :=
  match err s with
  | Some _ => None
  | None =>
      match l with
      | LStart t => step_start b s t
      | LOp t => step_op b s t
      | LDeliver t i => step_deliver b s t i
      end
  end.

Definition is_some {A} (o : option A) : bool := match o with Some _ => true | None => false end.

(* all enabled labels, tasks in index order *)
Definition enabled_of_task (b : bench) (s : state) (t : nat) : list label :=
  (if is_some (net_step b s (LStart t)) then [LStart t] else []) ++
  (if is_some (net_step b s (LOp t)) then [LOp t] else []) ++
  match nth_error (tasks s) t with
  | Some x => match tfr x with
              | Some f => filter (fun l => is_some (net_step b s l))
                                 (map (fun i => LDeliver t i) (seqn 0 (length (fpend f))))
              | None => []
              end
  | None => []
  end.

Definition net_enabled (b : bench) (s : state) : list label :=
  flat_map (enabled_of_task b s) (seqn 0 (length (tasks s))).

(* Executor::run under a choice sequence; returns the quiescent (or failed)
   state, the number of steps, whether more than one step was ever enabled,
   and None when the fuel ran out. *)
Fixpoint net_run (b : bench) (fuel : nat) (choices : list nat) (s : state) (nondet : bool)
  : option (state * bool) :=
  match fuel with
  | O => None
  | S fuel' =>
      match net_enabled b s with
      | [] => Some (s, nondet)
      | l0 :: ls =>
          let n := S (length ls) in
          let '(c, rest) := match choices with [] => (0, []) | c :: r => (c, r) end in
          let l := nth (Nat.modulo c n) (l0 :: ls) l0 in
          match net_step b s l with
          | Some s' => net_run b fuel' rest s' (nondet || negb (Nat.eqb n 1))
          | None => None
          end
      end
  end.

(* ------------------------------------------------------------------ *)
(* The driver (Simulation / SimInit)                                   *)

Inductive res :=
  | ROk | RTerminated
  | RDeadlock (l : list (list (option nat) * nat))
  | RMessageLoss (n : Z)
  | RNoRecipient (m : option (list (option nat)))
  | RPanic (m : list (option nat)) (code : Z)
  | ROutOfSync (lag : Z)
  | RBadQuery
  | RInvalidDeadline (t : Z)
  | RSched (code : N)
  | RReply (v : Z)
  | RSink (l : list Z)
  | RHang      (* the stepping call never returns *)
  | RFuel.     (* the model's own fuel ran out: outside every statement *)

Definition is_added (sp : mspec) : bool := match mplace sp with Added => true | _ => false end.
Definition is_top (sp : mspec) : bool := match mparent sp with None => true | Some _ => false end.

(* mailboxes whose length the simulation can observe (Simulation::observers) *)
Definition observed (b : bench) (s : state) : list (list (option nat) * nat) :=
  flat_map (fun m =>
    match nth_error (bmodels b) m, nth_error (boxes s) m with
    | Some sp, Some q =>
        if is_added sp && (is_top sp || negb (bugF2 b)) && negb (Nat.eqb (length q) 0)
        then [(mname b m, length q)] else []
    | _, _ => []
    end) (seqn 0 (length (bmodels b))).

Definition classify (b : bench) (s : state) : res :=
  match err s with
  | Some (FPanic m c) => RPanic (mname b m) c
  | Some (FNoRecipient m) => RNoRecipient (option_map (mname b) m)
  | None =>
      if Z.eqb (inflight s) 0 then ROk
      else match observed b s with
           | [] => RMessageLoss (inflight s)
           | l => RDeadlock l
           end
  end.

Definition is_ok (r : res) : bool := match r with ROk => true | _ => false end.

(* Simulation::run *)
Definition sim_run (b : bench) (fuel : nat) (choices : list nat) (s : state) : state * res * bool :=
  if terminated s then (s, RTerminated, false)
  else match net_run b fuel choices s false with
       | None => (s, RFuel, false)
       | Some (s', nd) =>
           let r := classify b s' in
           (if is_ok r then s' else set_terminated s' true, r, nd)
       end.

Definition spawn (s : state) (ops : list op) : state :=
  set_tasks s (tasks s ++ [{| tk := TKAction; tinit := false; tfr := Some (empty_frame ops 0 None);
                              tdone := false; tkeys := [] |}]).

Definition clock_sync (b : bench) (s : state) (t : Z) : state * option Z :=
  let ans := nth (clockpos s) (bclock b) None in
  (add_log (set_clockpos s (S (clockpos s))) (EClock t), ans).

Definition over_tolerance (b : bench) (ans : option Z) : option Z :=
  match ans, btol b with
  | Some lag, Some tol => if Z.ltb tol lag then Some lag else None
  | _, _ => None
  end.

Definition le_bound (t : Z) (bound : option Z) : bool :=
  match bound with None => true | Some x => Z.leb t x end.

(* peek_next_key: discards cancelled heads *)
Fixpoint peek_next (fuel : nat) (s : state) (q : pq action) (bound : option Z) : option key * pq action :=
  match fuel with
  | O => (None, q)
  | S f =>
      match pq_peek q with
      | Some (k, a) =>
          if le_bound (fst k) bound then
            if key_cancelled s (akey a) then peek_next f s (snd (pq_pull q)) bound
            else (Some k, q)
          else (None, q)
      | None => (None, q)
      end
  end.

(* pull_next_action: a periodic action is re-inserted at key.time + period *)
Definition pull_next (q : pq action) : option (key * action * pq action) :=
  match pq_pull q with
  | (Some (k, a), q1) =>
      Some (k, a, match aperiod a with
                  | Some p => pq_insert q1 ((fst k + p)%Z, snd k) a
                  | None => q1
                  end)
  | (None, _) => None
  end.

Definition opt_key_eqb (a : option key) (k : key) : bool :=
  match a with Some x => key_eqb x k | None => false end.

(* The critical section of step_to_next_bounded after the time write: groups
   consecutive actions with the same (time, origin) key into one sequential
   task.  None = the loop does not terminate within the fuel. *)
Fixpoint crit (fuel : nat) (s : state) (q : pq action) (bound : option Z) (cur : key)
         (group : list op) (groups : list (list op)) : option (pq action * list (list op)) :=
  match fuel with
  | O => None
  | S f =>
      match pull_next q with
      | None => None
      | Some (_, a, q1) =>
          let '(nk, q2) := peek_next (S (pq_len q1)) s q1 bound in
          if opt_key_eqb nk cur then crit f s q2 bound cur (group ++ [aop a]) groups
          else
            let groups' := groups ++ [group ++ [aop a]] in
            match nk with
            | Some k => if Z.eqb (fst k) (fst cur) then crit f s q2 bound k [] groups'
                        else Some (q2, groups')
            | None => Some (q2, groups')
            end
      end
  end.

(* step_to_next_bounded; the Z in the result is the new time, if any *)
Definition step_bounded (b : bench) (fuel : nat) (choices : list nat) (s : state) (bound : option Z)
  : state * res * option Z * bool :=
  if terminated s && negb (bugF1 b) then (s, RTerminated, None, false)
  else
    let '(nk, q0) := peek_next (S (pq_len (queue s))) s (queue s) bound in
    match nk with
    | None => (set_queue s q0, ROk, None, false)
    | Some k =>
        let s1 := add_log (set_now (set_queue s q0) (fst k)) (ETime (fst k)) in
        match crit (S (pq_len q0)) s1 q0 bound k [] [] with
        | None => (s1, RHang, None, false)
        | Some (q1, groups) =>
            let s2 := fold_left spawn groups (set_queue s1 q1) in
            let '(s3, ans) := clock_sync b s2 (fst k) in
            match over_tolerance b ans with
            | Some lag => (set_terminated s3 true, ROutOfSync lag, None, false)
            | None =>
                let '(s4, r, nd) := sim_run b fuel choices s3 in
                (s4, r, if is_ok r then Some (fst k) else None, nd)
            end
        end
    end.

(* step_until_unchecked *)
Fixpoint step_until_loop (b : bench) (n : nat) (fuel : nat) (choices : list nat) (s : state) (target : Z) (nd0 : bool)
  : state * res * bool :=
  match n with
  | O => (s, RFuel, nd0)
  | S n' =>
      let '(s1, r, t, nd) := step_bounded b fuel choices s (Some target) in
      let nd1 := nd0 || nd in
      if is_ok r then
        match t with
        | Some x => if Z.eqb x target then (s1, ROk, nd1)
                    else step_until_loop b n' fuel choices s1 target nd1
        | None =>
            let s2 := add_log (set_now s1 target) (ETime target) in
            let '(s3, ans) := clock_sync b s2 target in
            if bugF3 b then (s3, ROk, nd1)
            else match over_tolerance b ans with
                 | Some lag => (set_terminated s3 true, ROutOfSync lag, nd1)
                 | None => (s3, ROk, nd1)
                 end
        end
      else (s1, r, nd1)
  end.

Inductive cmd :=
  | CSchedEvent (d : dl) (m input : nat) (v : Z) (slot : option nat) (period : option Z)
  | CSchedSrc (d : dl) (src : nat) (v : Z) (slot : option nat) (period : option Z)
  | CCancel (slot : nat)
  | CStep
  | CStepUntil (d : dl)
  | CProcEvent (m input : nat) (v : Z)
  | CProcQuery (m rep : nat) (v : Z)
  | CProcSrc (src : nat) (v : Z)
  | CReadSink (sk : nat)
  | CSinkOpen (sk : nat) (o : bool).

Definition sink_drain (k : sinkst) : list Z * sinkst :=
  match k with
  | StBuf bb => (bq bb, StBuf {| bcap := bcap bb; bopen := bopen bb; bq := [] |})
  | StSlot ss => (match sval ss with Some v => [v] | None => [] end,
                  StSlot {| sopen := sopen ss; sval := None |})
  end.

Definition sink_set_open (k : sinkst) (o : bool) : sinkst :=
  match k with
  | StBuf bb => StBuf (ebuf_set_open bb o)
  | StSlot ss => StSlot (eslot_set_open ss o)
  end.

Definition has_slot (o : option nat) : bool := match o with Some _ => true | None => false end.

Definition store_dkey (s : state) (slot k : option nat) : state :=
  match slot, k with
  | Some sl, Some _ => set_dkeys s (lupd (dkeys s) sl k)
  | _, _ => s
  end.

Definition exec_cmd (b : bench) (fuel : nat) (s : state) (c : cmd) (choices : list nat) : state * res * bool :=
  match c with
  | CSchedEvent d m input v slot period =>
      let '(s1, code, k) := sched_request s 0%N d (fun k => OEvent m input v k) (has_slot slot) period true in
      (store_dkey s1 slot k, RSched code, false)
  | CSchedSrc d src v slot period =>
      let '(s1, code, k) := sched_request s 0%N d (fun _ => OBcast src v) (has_slot slot) period (negb (bugF4 b)) in
      (store_dkey s1 slot k, RSched code, false)
  | CCancel sl =>
      (set_dkeys (cancel_key s (nth sl (dkeys s) None)) (lupd (dkeys s) sl None), ROk, false)
  | CStep =>
      let '(s1, r, _, nd) := step_bounded b fuel choices s None in (s1, r, nd)
  | CStepUntil d =>
      if terminated s && negb (bugF1 b) then (s, RTerminated, false)
      else
        let target := dl_time d (now s) in
        if Z.ltb target (now s) then (s, RInvalidDeadline target, false)
        else step_until_loop b fuel fuel choices s target false
  | CProcEvent m input v =>
      if terminated s && negb (bugF1 b) then (s, RTerminated, false)
      else sim_run b fuel choices (spawn s [OEvent m input v None])
  | CProcQuery m rep v =>
      if terminated s && negb (bugF1 b) then (s, RTerminated, false)
      else
        let '(s1, r, nd) := sim_run b fuel choices (spawn (set_qreply s None) [OReq m rep v]) in
        if is_ok r then
          match qreply s1 with
          | Some x => (s1, RReply x, nd)
          | None => (s1, RBadQuery, nd)
          end
        else (s1, r, nd)
  | CProcSrc src v =>
      if terminated s && negb (bugF1 b) then (s, RTerminated, false)
      else sim_run b fuel choices (spawn s [OBcast src v])
  | CReadSink sk =>
      match nth_error (sinks s) sk with
      | Some k => let '(l, k') := sink_drain k in (set_sinks s (lupd (sinks s) sk k'), RSink l, false)
      | None => (s, RSink [], false)
      end
  | CSinkOpen sk o =>
      match nth_error (sinks s) sk with
      | Some k => (set_sinks s (lupd (sinks s) sk (sink_set_open k o)), ROk, false)
      | None => (s, ROk, false)
      end
  end.

Definition init_task (m : nat) (sp : mspec) : task :=
  {| tk := TKModel m; tinit := true; tfr := None; tdone := negb (is_added sp);
     tkeys := [None; None; None; None] |}.

Fixpoint init_tasks (m : nat) (l : list mspec) : list task :=
  match l with [] => [] | sp :: r => init_task m sp :: init_tasks (S m) r end.

Definition init_state (b : bench) : state :=
  {| boxes := map (fun _ => []) (bmodels b);
     tasks := init_tasks 0 (bmodels b);
     inflight := 0; queue := pq_empty; cancelled := []; next_aid := 0%N; now := 0;
     sinks := map (fun k => match k with SpecBuf c => StBuf (ebuf_new c true) | SpecSlot => StSlot (eslot_new true) end) (bsinks b);
     err := None; terminated := false; clockpos := 0;
     dkeys := [None; None; None; None; None; None; None; None]; qreply := None; log := [] |}.

(* SimInit::init *)
Definition sim_init (b : bench) (fuel : nat) (choices : list nat) : state * res * bool :=
  let s0 := init_state b in
  let s1 := add_log (set_now s0 (bt0 b)) (ETime (bt0 b)) in
  let '(s2, _) := clock_sync b s1 (bt0 b) in
  sim_run b fuel choices s2.

(* One observation per command: result, time afterwards, the log entries the
   command produced (oldest first), whether the run had a schedule choice. *)
Record obs := { ores : res; otime : Z; olog : list entry; ondet : bool }.

Definition new_entries (before after : list entry) : list entry :=
  rev (firstn (length after - length before) after).

Fixpoint exec_cmds (b : bench) (fuel : nat) (s : state) (cs : list (cmd * list nat)) : list obs :=
  match cs with
  | [] => []
  | (c, ch) :: r =>
      let '(s1, x, nd) := exec_cmd b fuel s c ch in
      {| ores := x; otime := now s1; olog := new_entries (log s) (log s1); ondet := nd |}
        :: exec_cmds b fuel s1 r
  end.

Definition sim_exec (b : bench) (fuel : nat) (ich : list nat) (cs : list (cmd * list nat)) : list obs :=
  let '(s, x, nd) := sim_init b fuel ich in
  {| ores := x; otime := now s; olog := new_entries [] (log s); ondet := nd |} :: exec_cmds b fuel s cs.
