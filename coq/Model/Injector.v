(* Model of executor/mt_executor/injector.rs: a mutex-protected vector of buckets of bounded capacity and
   an `is_empty` hint flag.  Every method holds the lock for its whole body (the flag is written under the
   lock), so under sequential consistency a method is one atomic step; what the worker protocol (Pool.v)
   relies on is that the flag says exactly whether the vector is empty. *)
Require Import NX.Base.Prelude NX.Base.ListX.

Record injector := { ibk : list (list Z); iflag : bool }.     (* buckets: index 0 = front *)

Definition inj_new : injector := {| ibk := []; iflag := true |}.

Inductive inj_op := JInsert (t : Z) | JPushBucket (b : list Z) | JPop | JIsEmpty.
Inductive inj_res := JUnit | JBucket (b : option (list Z)) | JBool (b : bool).

(* insert_task: push onto the first bucket; when it is full, move it to the back and start a new first bucket *)
Definition inj_insert (cap : nat) (s : injector) (t : Z) : injector :=
  match ibk s with
  | [] => {| ibk := [[t]]; iflag := false |}
  | b :: r => if length b <? cap then {| ibk := (b ++ [t]) :: r; iflag := iflag s |}
              else {| ibk := ([t] :: r) ++ [b]; iflag := iflag s |}
  end.

Definition inj_push_bucket (s : injector) (b : list Z) : injector :=
  {| ibk := ibk s ++ [b]; iflag := match ibk s with [] => false | _ => iflag s end |}.

(* pop_bucket: None when the flag says empty; otherwise the LAST bucket *)
Definition inj_pop (s : injector) : injector * option (list Z) :=
  if iflag s then (s, None)
  else match rev (ibk s) with
       | [] => ({| ibk := []; iflag := true |}, None)
       | b :: r => ({| ibk := rev r; iflag := match r with [] => true | _ => iflag s end |}, Some b)
       end.

Definition inj_step (cap : nat) (s : injector) (o : inj_op) : injector * inj_res :=
  match o with
  | JInsert t => (inj_insert cap s t, JUnit)
  | JPushBucket b => (inj_push_bucket s b, JUnit)
  | JPop => let (s', r) := inj_pop s in (s', JBucket r)
  | JIsEmpty => (s, JBool (iflag s))
  end.

Fixpoint inj_run (cap : nat) (s : injector) (ops : list inj_op) : injector * list inj_res :=
  match ops with
  | [] => (s, [])
  | o :: r => let (s1, x) := inj_step cap s o in let (s2, xs) := inj_run cap s1 r in (s2, x :: xs)
  end.

Definition inj_tasks (s : injector) : list Z := concat (ibk s).
