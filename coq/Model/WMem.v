(* A release/acquire + relaxed + fences memory model (view-based operational semantics in the
   style of ORC11 / the promise-free fragment of the promising semantics: RC11 without
   load-buffering) and a tiny instruction set in which util/sync_cell.rs's `write` and `try_read`
   are expressed (the two programs are GENERATED from the source: gen/SyncCellProg.v).

   - every location has a modification order = a list of messages (value, message view), the
     timestamp of a message is its index;
   - a thread has a current view, an acquire view (what an acquire fence will bring in) and a
     release-fence view (what its relaxed stores publish);
   - a load of x may read ANY message whose timestamp is at least the thread's current view of x
     (the nondeterministic choice c); relaxed loads only record the message view in the acquire
     view, acquire loads join it into the current view;
   - a store appends to the modification order (exact for locations written by a single thread:
     only SyncCell::write stores); a release store publishes the current view, a relaxed store
     publishes only the release-fence view (no same-thread release sequences: the weaker, C++20
     reading - a proof under it covers the stronger C++11 one);
   - Fn Acq: current := acquire view;  Fn Rel: release-fence view := current.
   Ghost fields (timestamps of the messages loaded into registers, history of completed writes)
   do not influence the steps. *)
Require Import NX.Base.Prelude NX.Base.ListX.

Inductive loc := LSeq | LSec | LNan.
Inductive ord := Rlx | Acq | Rel.
Inductive reg := R0 | R1 | R2 | R3.

Record view := { vq : nat; va : nat; vb : nat }.
Definition vbot : view := {| vq := 0; va := 0; vb := 0 |}.
Definition vjoin (u v : view) : view :=
  {| vq := Nat.max (vq u) (vq v); va := Nat.max (va u) (va v); vb := Nat.max (vb u) (vb v) |}.
Definition vget (x : loc) (v : view) : nat :=
  match x with LSeq => vq v | LSec => va v | LNan => vb v end.
Definition vsingle (x : loc) (t : nat) : view :=
  match x with
  | LSeq => {| vq := t; va := 0; vb := 0 |}
  | LSec => {| vq := 0; va := t; vb := 0 |}
  | LNan => {| vq := 0; va := 0; vb := t |}
  end.

Record msg := { mval : Z; mview : view }.
Record mem := { mq : list msg; ma : list msg; mb : list msg }.
Definition mget (x : loc) (m : mem) : list msg :=
  match x with LSeq => mq m | LSec => ma m | LNan => mb m end.
Definition mappend (x : loc) (g : msg) (m : mem) : mem :=
  match x with
  | LSeq => {| mq := mq m ++ [g]; ma := ma m; mb := mb m |}
  | LSec => {| mq := mq m; ma := ma m ++ [g]; mb := mb m |}
  | LNan => {| mq := mq m; ma := ma m; mb := mb m ++ [g] |}
  end.

Record regs := { g0 : Z; g1 : Z; g2 : Z; g3 : Z }.
Definition rget (r : reg) (f : regs) : Z := match r with R0 => g0 f | R1 => g1 f | R2 => g2 f | R3 => g3 f end.
Definition rset (r : reg) (v : Z) (f : regs) : regs :=
  match r with
  | R0 => {| g0 := v; g1 := g1 f; g2 := g2 f; g3 := g3 f |}
  | R1 => {| g0 := g0 f; g1 := v; g2 := g2 f; g3 := g3 f |}
  | R2 => {| g0 := g0 f; g1 := g1 f; g2 := v; g3 := g3 f |}
  | R3 => {| g0 := g0 f; g1 := g1 f; g2 := g2 f; g3 := v |}
  end.
Record tregs := { h0 : nat; h1 : nat; h2 : nat; h3 : nat }.   (* ghost: timestamps loaded *)
Definition tget (r : reg) (f : tregs) : nat := match r with R0 => h0 f | R1 => h1 f | R2 => h2 f | R3 => h3 f end.
Definition tset (r : reg) (v : nat) (f : tregs) : tregs :=
  match r with
  | R0 => {| h0 := v; h1 := h1 f; h2 := h2 f; h3 := h3 f |}
  | R1 => {| h0 := h0 f; h1 := v; h2 := h2 f; h3 := h3 f |}
  | R2 => {| h0 := h0 f; h1 := h1 f; h2 := v; h3 := h3 f |}
  | R3 => {| h0 := h0 f; h1 := h1 f; h2 := h2 f; h3 := v |}
  end.

Inductive expr := EReg (r : reg) (k : Z) | EArgA | EArgB.
Inductive instr :=
  | Ld (x : loc) (o : ord) (r : reg)
  | St (x : loc) (o : ord) (e : expr)
  | Fn (o : ord)
  | FailIfOdd (r : reg)                       (* if r & 1 != 0 { return Err } *)
  | RetIfEq (r1 r2 ra rb : reg).              (* if r1 == r2 { Ok((ra, rb)) } else { Err } *)

Record thread := {
  pc : nat; rv : regs; rt : tregs;
  cur : view; acq : view; frel : view;
  args : list (Z * Z);                        (* writer: values still to be written, head in progress *)
  outs : list (nat * (Z * Z))                 (* reader: Ok results, newest first, with the (ghost)
                                                 timestamp of the sequence number they were validated against *)
}.

Record wstate := {
  wprog : list instr; rprog : list instr;
  wmem : mem;
  threads : list thread;                      (* thread 0 runs wprog once per argument; the others loop on rprog *)
  whist : list (Z * Z)                        (* ghost: initial value followed by the completed writes *)
}.

Definition thread0 (vals : list (Z * Z)) : thread :=
  {| pc := 0; rv := {| g0 := 0; g1 := 0; g2 := 0; g3 := 0 |}; rt := {| h0 := 0; h1 := 0; h2 := 0; h3 := 0 |};
     cur := vbot; acq := vbot; frel := vbot; args := vals; outs := [] |}.

Definition wm_init (wp rp : list instr) (v0 : Z * Z) (vals : list (Z * Z)) (nreaders : nat) : wstate :=
  {| wprog := wp; rprog := rp;
     wmem := {| mq := [{| mval := 0; mview := vbot |}];
                ma := [{| mval := fst v0; mview := vbot |}];
                mb := [{| mval := snd v0; mview := vbot |}] |};
     threads := thread0 vals :: map (fun _ => thread0 []) (seqn 0 nreaders);
     whist := [v0] |}.

Definition eval (e : expr) (th : thread) : Z :=
  match e with
  | EReg r k => (rget r (rv th) + k)%Z
  | EArgA => match args th with a :: _ => fst a | [] => 0%Z end
  | EArgB => match args th with a :: _ => snd a | [] => 0%Z end
  end.

Definition set_pc (th : thread) (p : nat) : thread :=
  {| pc := p; rv := rv th; rt := rt th; cur := cur th; acq := acq th; frel := frel th; args := args th; outs := outs th |}.

(* one instruction of thread [th]; [c] picks the message a load reads.  Returns the thread with
   pc advanced by one (or reset by FailIfOdd / RetIfEq) and the memory. *)
Definition exec (i : instr) (th : thread) (m : mem) (c : nat) : option (thread * mem) :=
  match i with
  | Ld x o r =>
      let ts := vget x (cur th) + c in
      match nth_error (mget x m) ts with
      | None => None
      | Some g =>
          let cur1 := vjoin (cur th) (vsingle x ts) in
          let cur2 := match o with Acq => vjoin cur1 (mview g) | _ => cur1 end in
          Some ({| pc := S (pc th); rv := rset r (mval g) (rv th); rt := tset r ts (rt th);
                   cur := cur2; acq := vjoin (acq th) (vjoin (vsingle x ts) (mview g)); frel := frel th;
                   args := args th; outs := outs th |}, m)
      end
  | St x o e =>
      let ts := length (mget x m) in
      let cur1 := vjoin (cur th) (vsingle x ts) in
      let mv := match o with Rel => cur1 | _ => vjoin (frel th) (vsingle x ts) end in
      Some ({| pc := S (pc th); rv := rv th; rt := rt th;
               cur := cur1; acq := vjoin (acq th) (vsingle x ts); frel := frel th;
               args := args th; outs := outs th |},
            mappend x {| mval := eval e th; mview := mv |} m)
  | Fn o =>
      Some ({| pc := S (pc th); rv := rv th; rt := rt th;
               cur := match o with Acq => acq th | _ => cur th end;
               acq := acq th;
               frel := match o with Rel => cur th | _ => frel th end;
               args := args th; outs := outs th |}, m)
  | FailIfOdd r =>
      Some (set_pc th (if Z.odd (rget r (rv th)) then 0 else S (pc th)), m)
  | RetIfEq r1 r2 ra rb =>
      Some ({| pc := 0; rv := rv th; rt := rt th; cur := cur th; acq := acq th; frel := frel th; args := args th;
               outs := if Z.eqb (rget r1 (rv th)) (rget r2 (rv th))
                       then (tget r1 (rt th), (rget ra (rv th), rget rb (rv th))) :: outs th
                       else outs th |}, m)
  end.

(* thread t executes its next instruction *)
Definition wm_step (s : wstate) (t c : nat) : option wstate :=
  match nth_error (threads s) t with
  | None => None
  | Some th =>
      match t with
      | O =>
          match args th with
          | [] => None
          | a :: rest =>
              match nth_error (wprog s) (pc th) with
              | None => None
              | Some i =>
                  match exec i th (wmem s) c with
                  | None => None
                  | Some (th1, m1) =>
                      if Nat.eqb (pc th1) (length (wprog s)) then
                        (* the write is complete *)
                        Some {| wprog := wprog s; rprog := rprog s; wmem := m1;
                                threads := lupd (threads s) 0
                                  {| pc := 0; rv := rv th1; rt := rt th1; cur := cur th1; acq := acq th1;
                                     frel := frel th1; args := rest; outs := outs th1 |};
                                whist := whist s ++ [a] |}
                      else
                        Some {| wprog := wprog s; rprog := rprog s; wmem := m1;
                                threads := lupd (threads s) 0 th1; whist := whist s |}
                  end
              end
          end
      | S _ =>
          match nth_error (rprog s) (pc th) with
          | None => None
          | Some i =>
              match exec i th (wmem s) c with
              | None => None
              | Some (th1, m1) =>
                  Some {| wprog := wprog s; rprog := rprog s; wmem := m1;
                          threads := lupd (threads s) t
                            (if Nat.ltb (pc th1) (length (rprog s)) then th1 else set_pc th1 0);
                          whist := whist s |}
              end
          end
      end
  end.

Fixpoint wm_run (s : wstate) (sched : list (nat * nat)) : wstate :=
  match sched with
  | [] => s
  | (t, c) :: r => match wm_step s t c with Some s' => wm_run s' r | None => wm_run s r end
  end.

(* what is observed: per reader, the values returned, oldest first *)
Definition wm_outputs (s : wstate) : list (list (Z * Z)) :=
  map (fun th => rev (map snd (outs th))) (tl (threads s)).

(* the programs the proofs are about (Proofs/WMemProofs.v); gen/SyncCellProg.v - regenerated from
   util/sync_cell.rs and time/monotonic_time.rs on every run - must be equal to them *)
Definition wprog_proved : list instr :=
  [Ld LSeq Rlx R0; St LSeq Rlx (EReg R0 1); Fn Rel; St LSec Rlx EArgA; St LNan Rlx EArgB; St LSeq Rel (EReg R0 2)].
Definition rprog_proved : list instr :=
  [Ld LSeq Acq R0; FailIfOdd R0; Ld LSec Rlx R1; Ld LNan Rlx R2; Fn Acq; Ld LSeq Rlx R3; RetIfEq R0 R3 R1 R2].
