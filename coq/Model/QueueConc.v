(* Concurrent model of channel/queue.rs: any number of producers running Queue::push, the single
   consumer running Queue::pop followed by the drop of the MessageBorrow, and a closer, under
   sequentially consistent interleaving at the granularity of ONE shared-memory access per step
   (the accesses and their order are those of the source; compare_exchange_weak may fail
   spuriously: the choice bit of a step).

   Positions are linear counters (see Model/Queue.v for the packed encoding: lap, closed flag and
   index in one word; the order and equality tests of the code on encoded values are the tests
   below).  A stamp is kept as the number 2n ("vacant, to be written by push number n" = the
   encoded position of n) or 2n+1 ("holds the message of push n" = that position + 1); the drop of
   the borrow stores 2(n + cap).  Ghost fields: log (the values in the order in which the
   compare-exchange on enqueue_pos succeeded), popped (the values taken by the consumer, in
   order), the tickets each producer obtained, and a counter of "unreachable!()" / debug-assert
   situations. *)
Require Import NX.Base.Prelude NX.Base.ListX.

Section QC.
  Variable V : Type.

  Inductive cell := CVac | CPop (v : V) | CNone.
  Inductive pres := PrOk | PrFull | PrClosed.
  Inductive cres := CrVal (v : V) | CrEmpty | CrClosed.

  Record prod := {
    ppc : nat;            (* 0 load enqueue_pos | 1 closed? load stamp | 2 compare / CAS | 3 write cell | 4 store stamp *)
    ppos : nat; pclo : bool; pst : nat;
    pvals : list V;       (* values still to push; the head is in progress *)
    pout : list pres;     (* results, newest first *)
    ptix : list (nat * V) (* ghost: tickets obtained, newest first *)
  }.

  Record cons := {
    cpc : nat;            (* 0 load dequeue_pos | 1 load stamp | 2 store dequeue_pos / load enqueue_pos
                             | 3 take the cell | 4 (drop) vacate the cell | 5 (drop) store stamp *)
    cdeq : nat; cst : nat;
    cleft : nat;          (* pop attempts left *)
    cout : list cres      (* results, newest first *)
  }.

  Record cstate := {
    cap : nat;
    enq : nat; closed : bool; deq : nat;
    slots : list (nat * cell);
    prods : list prod; con : cons;
    log : list V; popped : list V; cerr : nat
  }.

  Definition cq_init (capacity : nat) (pv : list (list V)) (npops : nat) : cstate :=
    {| cap := capacity; enq := 0; closed := false; deq := 0;
       slots := map (fun i => (2 * i, CVac)) (seqn 0 capacity);
       prods := map (fun vs => {| ppc := 0; ppos := 0; pclo := false; pst := 0; pvals := vs; pout := []; ptix := [] |}) pv;
       con := {| cpc := 0; cdeq := 0; cst := 0; cleft := npops; cout := [] |};
       log := []; popped := []; cerr := 0 |}.

  Definition slot_at (s : cstate) (n : nat) : nat * cell :=
    nth (Nat.modulo n (cap s)) (slots s) (0, CNone).

  Definition set_slot (s : cstate) (n : nat) (x : nat * cell) : list (nat * cell) :=
    lupd (slots s) (Nat.modulo n (cap s)) x.

  Definition upd_glob (s : cstate) (e : nat) (c : bool) (d : nat) (sl : list (nat * cell))
                      (lg pp : list V) (er : nat) : cstate :=
    {| cap := cap s; enq := e; closed := c; deq := d; slots := sl; prods := prods s; con := con s;
       log := lg; popped := pp; cerr := er |}.
  Definition set_prod (s : cstate) (i : nat) (p : prod) : cstate :=
    {| cap := cap s; enq := enq s; closed := closed s; deq := deq s; slots := slots s;
       prods := lupd (prods s) i p; con := con s; log := log s; popped := popped s; cerr := cerr s |}.
  Definition set_con (s : cstate) (c : cons) : cstate :=
    {| cap := cap s; enq := enq s; closed := closed s; deq := deq s; slots := slots s;
       prods := prods s; con := c; log := log s; popped := popped s; cerr := cerr s |}.

  Definition mkprod (pc pos : nat) (clo : bool) (st : nat) (vals : list V) (out : list pres) (tix : list (nat * V)) : prod :=
    {| ppc := pc; ppos := pos; pclo := clo; pst := st; pvals := vals; pout := out; ptix := tix |}.

  (* one shared-memory access of producer i *)
  Definition prod_step (s : cstate) (i : nat) (p : prod) (spurious : bool) : option cstate :=
    match pvals p with
    | [] => None
    | v :: rest =>
        match ppc p with
        | 0 => Some (set_prod s i (mkprod 1 (enq s) (closed s) (pst p) (pvals p) (pout p) (ptix p)))
        | 1 => if pclo p
               then Some (set_prod s i (mkprod 0 (ppos p) (pclo p) (pst p) rest (PrClosed :: pout p) (ptix p)))
               else Some (set_prod s i (mkprod 2 (ppos p) false (fst (slot_at s (ppos p))) (pvals p) (pout p) (ptix p)))
        | 2 => if Nat.eqb (pst p) (2 * ppos p) then
                 (* compare_exchange_weak on enqueue_pos (the closed flag is part of the word) *)
                 if negb spurious && negb (closed s) && Nat.eqb (enq s) (ppos p) then
                   Some (set_prod (upd_glob s (S (enq s)) (closed s) (deq s) (slots s) (log s ++ [v]) (popped s) (cerr s))
                                  i (mkprod 3 (ppos p) false (pst p) (pvals p) (pout p) ((ppos p, v) :: ptix p)))
                 else Some (set_prod s i (mkprod 1 (enq s) (closed s) (pst p) (pvals p) (pout p) (ptix p)))
               else if Nat.ltb (pst p) (2 * ppos p) then
                 Some (set_prod s i (mkprod 0 (ppos p) (pclo p) (pst p) rest (PrFull :: pout p) (ptix p)))
               else Some (set_prod s i (mkprod 1 (enq s) (closed s) (pst p) (pvals p) (pout p) (ptix p)))
        | 3 => let '(st, c) := slot_at s (ppos p) in
               Some (set_prod (upd_glob s (enq s) (closed s) (deq s) (set_slot s (ppos p) (st, CPop v)) (log s) (popped s)
                                        (cerr s + match c with CVac => 0 | _ => 1 end))
                              i (mkprod 4 (ppos p) false (pst p) (pvals p) (pout p) (ptix p)))
        | 4 => let '(st, c) := slot_at s (ppos p) in
               Some (set_prod (upd_glob s (enq s) (closed s) (deq s) (set_slot s (ppos p) (S (pst p), c)) (log s) (popped s) (cerr s))
                              i (mkprod 0 (ppos p) false (pst p) rest (PrOk :: pout p) (ptix p)))
        | _ => None
        end
    end.

  Definition mkcons (pc d st left : nat) (out : list cres) : cons :=
    {| cpc := pc; cdeq := d; cst := st; cleft := left; cout := out |}.

  Definition cons_step (s : cstate) : option cstate :=
    let c := con s in
    match cpc c with
    | 0 => match cleft c with
           | O => None
           | S l => Some (set_con s (mkcons 1 (deq s) (cst c) l (cout c)))
           end
    | 1 => Some (set_con s (mkcons 2 (cdeq c) (fst (slot_at s (cdeq c))) (cleft c) (cout c)))
    | 2 => if Nat.eqb (cst c) (2 * cdeq c) then
             (* nothing to pop: closed and drained, or empty *)
             Some (set_con s (mkcons 0 (cdeq c) (cst c) (cleft c)
                                     ((if closed s && Nat.eqb (enq s) (cdeq c) then CrClosed else CrEmpty) :: cout c)))
           else
             Some (set_con (upd_glob s (enq s) (closed s) (S (cdeq c)) (slots s) (log s) (popped s)
                                     (cerr s + (if Nat.eqb (cst c) (S (2 * cdeq c)) then 0 else 1)))
                           (mkcons 3 (cdeq c) (cst c) (cleft c) (cout c)))
    | 3 => let '(st, ce) := slot_at s (cdeq c) in
           match ce with
           | CPop v =>
               Some (set_con (upd_glob s (enq s) (closed s) (deq s) (set_slot s (cdeq c) (st, CNone)) (log s) (popped s ++ [v]) (cerr s))
                             (mkcons 4 (cdeq c) (cst c) (cleft c) (CrVal v :: cout c)))
           | _ => Some (set_con (upd_glob s (enq s) (closed s) (deq s) (slots s) (log s) (popped s) (S (cerr s)))
                                (mkcons 0 (cdeq c) (cst c) (cleft c) (cout c)))
           end
    | 4 => let '(st, ce) := slot_at s (cdeq c) in
           Some (set_con (upd_glob s (enq s) (closed s) (deq s) (set_slot s (cdeq c) (st, CVac)) (log s) (popped s) (cerr s))
                         (mkcons 5 (cdeq c) (cst c) (cleft c) (cout c)))
    | 5 => let '(st, ce) := slot_at s (cdeq c) in
           (* stamp.wrapping_add(right_mask): the encoded position of the same index one lap later *)
           Some (set_con (upd_glob s (enq s) (closed s) (deq s) (set_slot s (cdeq c) (cst c + 2 * cap s - 1, ce)) (log s) (popped s) (cerr s))
                         (mkcons 0 (cdeq c) (cst c) (cleft c) (cout c)))
    | _ => None
    end.

  (* thread 0: the consumer; thread 1: close(); thread i+2: producer i *)
  Definition cq_step (s : cstate) (t : nat) (spurious : bool) : option cstate :=
    match t with
    | 0 => cons_step s
    | 1 => Some (upd_glob s (enq s) true (deq s) (slots s) (log s) (popped s) (cerr s))
    | S (S i) => match nth_error (prods s) i with
                 | Some p => prod_step s i p spurious
                 | None => None
                 end
    end.

  Fixpoint cq_run (s : cstate) (sched : list (nat * bool)) : cstate :=
    match sched with
    | [] => s
    | (t, b) :: r => match cq_step s t b with Some s' => cq_run s' r | None => cq_run s r end
    end.

  (* len() when nothing is in flight *)
  Definition cq_len (s : cstate) : nat := enq s - deq s.
  Definition quiescent (s : cstate) : Prop :=
    cpc (con s) = 0 /\ forall p, In p (prods s) -> ppc p = 0.
End QC.

Arguments CVac {V}. Arguments CPop {V}. Arguments CNone {V}.
Arguments CrVal {V}. Arguments CrEmpty {V}. Arguments CrClosed {V}.
Arguments ppc {V}. Arguments ppos {V}. Arguments pclo {V}. Arguments pst {V}. Arguments pvals {V}. Arguments pout {V}. Arguments ptix {V}.
Arguments cpc {V}. Arguments cdeq {V}. Arguments cst {V}. Arguments cleft {V}. Arguments cout {V}.
Arguments cap {V}. Arguments enq {V}. Arguments closed {V}. Arguments deq {V}. Arguments slots {V}. Arguments prods {V}.
Arguments con {V}. Arguments log {V}. Arguments popped {V}. Arguments cerr {V}.
Arguments cq_init {V}. Arguments slot_at {V}. Arguments set_slot {V}. Arguments upd_glob {V}. Arguments set_prod {V}.
Arguments set_con {V}. Arguments mkprod {V}. Arguments mkcons {V}. Arguments prod_step {V}. Arguments cons_step {V}.
Arguments cq_step {V}. Arguments cq_run {V}. Arguments cq_len {V}. Arguments quiescent {V}.
