(* Common imports and settings for the NX development (stdlib only). *)
From Coq Require Export List Arith ZArith NArith Lia Bool Permutation.
Export ListNotations.

Global Arguments N.add : simpl never.
Global Arguments N.sub : simpl never.
Global Arguments N.mul : simpl never.
Global Arguments N.eqb : simpl never.
Global Arguments N.ltb : simpl never.
Global Arguments N.leb : simpl never.
Global Arguments Z.add : simpl never.
Global Arguments Z.sub : simpl never.
Global Arguments Z.mul : simpl never.
Global Arguments Z.eqb : simpl never.
Global Arguments Z.ltb : simpl never.
Global Arguments Z.leb : simpl never.

(* Keys of the scheduler queue: (time in ns, origin id). *)
Definition key := (Z * N)%type.

Definition key_ltb (a b : key) : bool :=
  (Z.ltb (fst a) (fst b)) || (Z.eqb (fst a) (fst b) && N.ltb (snd a) (snd b)).
Definition key_eqb (a b : key) : bool :=
  Z.eqb (fst a) (fst b) && N.eqb (snd a) (snd b).
Definition key_leb (a b : key) : bool := key_ltb a b || key_eqb a b.

Definition key_lt (a b : key) : Prop :=
  (fst a < fst b)%Z \/ (fst a = fst b /\ (snd a < snd b)%N).
Definition key_le (a b : key) : Prop := key_lt a b \/ a = b.

Lemma key_ltb_iff a b : key_ltb a b = true <-> key_lt a b.
Proof.
  unfold key_ltb, key_lt. destruct a as [a1 a2], b as [b1 b2]; cbn [fst snd].
  rewrite orb_true_iff, andb_true_iff, Z.ltb_lt, Z.eqb_eq, N.ltb_lt. tauto.
Qed.

Lemma key_ltb_spec a b : reflect (key_lt a b) (key_ltb a b).
Proof. apply iff_reflect. symmetry. apply key_ltb_iff. Qed.

Lemma key_eqb_iff a b : key_eqb a b = true <-> a = b.
Proof.
  unfold key_eqb. destruct a as [a1 a2], b as [b1 b2]; cbn [fst snd].
  rewrite andb_true_iff, Z.eqb_eq, N.eqb_eq. split; [intros [-> ->]; auto|intros H; injection H; auto].
Qed.

Lemma key_eqb_spec a b : reflect (a = b) (key_eqb a b).
Proof. apply iff_reflect. symmetry. apply key_eqb_iff. Qed.

Lemma key_leb_spec a b : reflect (key_le a b) (key_leb a b).
Proof.
  unfold key_leb, key_le.
  destruct (key_ltb_spec a b); cbn [orb]; [constructor; auto|].
  destruct (key_eqb_spec a b); constructor; tauto.
Qed.

Lemma key_lt_irrefl a : ~ key_lt a a.
Proof. unfold key_lt; lia. Qed.

Lemma key_lt_trans a b c : key_lt a b -> key_lt b c -> key_lt a c.
Proof. unfold key_lt; lia. Qed.

Lemma key_lt_total a b : key_lt a b \/ a = b \/ key_lt b a.
Proof.
  destruct a as [a1 a2], b as [b1 b2]; unfold key_lt; cbn [fst snd].
  destruct (Z.lt_trichotomy a1 b1) as [H|[H|H]]; [lia| |lia].
  destruct (N.lt_trichotomy a2 b2) as [H2|[H2|H2]]; [lia| |lia].
  right; left; congruence.
Qed.

Lemma key_le_refl a : key_le a a.
Proof. right; reflexivity. Qed.

Lemma key_le_trans a b c : key_le a b -> key_le b c -> key_le a c.
Proof.
  unfold key_le; intros [H1|H1] [H2|H2]; subst; auto.
  left; eapply key_lt_trans; eauto.
Qed.

Lemma key_le_lt_trans a b c : key_le a b -> key_lt b c -> key_lt a c.
Proof. intros [H|H] H2; subst; auto. eapply key_lt_trans; eauto. Qed.

Lemma key_lt_le_trans a b c : key_lt a b -> key_le b c -> key_lt a c.
Proof. intros H [H2|H2]; subst; auto. eapply key_lt_trans; eauto. Qed.

Lemma key_not_lt_le a b : ~ key_lt a b -> key_le b a.
Proof.
  intros H. destruct (key_lt_total a b) as [H1|[H1|H1]]; [tauto| |left; auto].
  right; auto.
Qed.

Lemma key_le_not_lt a b : key_le a b -> ~ key_lt b a.
Proof.
  intros [H|H] H2; subst.
  - apply (key_lt_irrefl a). eapply key_lt_trans; eauto.
  - apply (key_lt_irrefl b); auto.
Qed.
