(* Small list utilities shared by the models. *)
Require Import NX.Base.Prelude.

Fixpoint lupd {A} (l : list A) (i : nat) (x : A) : list A :=
  match l, i with
  | [], _ => []
  | _ :: r, O => x :: r
  | y :: r, S i' => y :: lupd r i' x
  end.

Fixpoint ldel {A} (l : list A) (i : nat) : list A :=
  match l, i with
  | [], _ => []
  | _ :: r, O => r
  | y :: r, S i' => y :: ldel r i'
  end.

Fixpoint lfind_idx {A} (p : A -> bool) (l : list A) (i : nat) : option nat :=
  match l with
  | [] => None
  | x :: r => if p x then Some i else lfind_idx p r (S i)
  end.

Fixpoint seqn (start len : nat) : list nat :=
  match len with O => [] | S n => start :: seqn (S start) n end.

Definition opt_all {A} (l : list (option A)) : bool :=
  forallb (fun o => match o with Some _ => true | None => false end) l.

Fixpoint opt_vals {A} (l : list (option A)) : list A :=
  match l with
  | [] => []
  | Some x :: r => x :: opt_vals r
  | None :: r => opt_vals r
  end.

Lemma lupd_length {A} (l : list A) i x : length (lupd l i x) = length l.
Proof. revert i; induction l as [|y r IH]; intros [|i]; cbn; auto. Qed.

Lemma nth_error_lupd_eq {A} (l : list A) i x : i < length l -> nth_error (lupd l i x) i = Some x.
Proof.
  revert i; induction l as [|y r IH]; intros [|i] H; cbn in *; try lia; auto.
  apply IH; lia.
Qed.

Lemma nth_error_lupd_ne {A} (l : list A) i j x : i <> j -> nth_error (lupd l i x) j = nth_error l j.
Proof.
  revert i j; induction l as [|y r IH]; intros [|i] [|j] H; cbn; auto; try congruence.
Qed.

Lemma In_seqn len : forall st m, In m (seqn st len) <-> st <= m < st + len.
Proof.
  induction len as [|len IH]; intros st m; cbn [seqn In]; [lia|].
  rewrite IH. lia.
Qed.
