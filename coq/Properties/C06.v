(* C06 — Deadlock and message-loss detection is exact. *)
Require Import NX.Base.Prelude NX.Base.ListX NX.Model.PQ NX.Model.Sim.
Require Import NX.Proofs.SimBasic NX.Proofs.NetProofs.

(* The in-flight message counter equals the total number of queued messages,
   over ALL mailboxes, in every state reachable by the steps of a run (any
   schedule, any bench): it is an invariant of every step. *)
Theorem c06_count_exact_step :
  forall b s l s', count_ok s -> net_step b s l = Some s' -> count_ok s'.
Proof. exact net_step_count. Qed.
Print Assumptions c06_count_exact_step.

Theorem c06_count_exact_run :
  forall b fuel ch s nd s' nd', count_ok s -> net_run b fuel ch s nd = Some (s', nd') -> count_ok s'.
Proof. exact net_run_count. Qed.
Print Assumptions c06_count_exact_run.

(* What the verdict of a failure-free run means: Ok iff every mailbox is empty;
   Deadlock l iff l is the non-empty list of observed mailboxes; MessageLoss n
   iff no observed mailbox holds a message and n is the (non-zero) total number
   of queued messages, which therefore all sit in mailboxes that are not
   observed. *)
Theorem c06_report :
  forall b s, err s = None -> count_ok s ->
    (classify b s = ROk <-> forall m q, nth_error (boxes s) m = Some q -> q = []) /\
    (forall l, classify b s = RDeadlock l -> l = observed b s /\ l <> []) /\
    (forall n, classify b s = RMessageLoss n ->
       observed b s = [] /\ n = Z.of_nat (total_len (boxes s)) /\ n <> 0%Z).
Proof. exact classify_meaning. Qed.
Print Assumptions c06_report.

(* The observed mailboxes are exactly the added models with a non-empty
   mailbox - sub-models included once their observers are registered
   (bugF2 = false) - by qualified name and exact length. *)
Theorem c06_observed :
  forall b s name n,
    In (name, n) (observed b s) <->
    exists m sp q, nth_error (bmodels b) m = Some sp /\ nth_error (boxes s) m = Some q /\
                   is_added sp = true /\ (is_top sp = true \/ bugF2 b = false) /\
                   q <> [] /\ name = mname b m /\ n = length q.
Proof. exact observed_spec. Qed.
Print Assumptions c06_observed.

(* Finding F2: on the pinned tree a query loop-back inside a sub-model is
   reported as MessageLoss(1); with the observers registered it is Deadlock. *)
Definition c06_bench (f2 : bool) : bench :=
  {| bmodels := [{| mcap := 4; mplace := Added; mparent := None; mnamed := true; minit := [];
                    mhandlers := [[]]; mrepliers := []; mouts := []; mreqs := [] |};
                 {| mcap := 4; mplace := Added; mparent := Some 0; mnamed := true; minit := [];
                    mhandlers := [[OQuery 0 EIn]]; mrepliers := [([], 1%Z)]; mouts := [];
                    mreqs := [[{| qkeep := KAll; qadd := 0; qmodel := 1; qrep := 0; qradd := 0 |}]] |}];
     bsinks := []; bsources := []; bclock := []; btol := None; bt0 := 0;
     bugF1 := false; bugF2 := f2; bugF3 := false; bugF4 := false |}.
Example c06_submodel_refuted_on_pinned_tree :
  map ores (sim_exec (c06_bench true) 300 [] [(CProcEvent 1 0 5, [])]) = [ROk; RMessageLoss 1].
Proof. vm_compute. reflexivity. Qed.
Example c06_submodel_after_fix :
  map ores (sim_exec (c06_bench false) 300 [] [(CProcEvent 1 0 5, [])]) = [ROk; RDeadlock [([Some 0; Some 1], 1)]].
Proof. vm_compute. reflexivity. Qed.

(* ---- the message count read by the multi-threaded executor (Model/Pool.v) ----
   For the barrier program GENERATED from the current executor/mt_executor.rs: every value of msg_count
   that Executor::run reads when it finds the pool idle equals the number of messages sent minus the
   number of messages received by all the tasks run so far, for every pool size, interleaving and task
   behaviour: no spurious and no missed "unprocessed messages" verdict comes from the hand-off between
   the workers going idle and the main thread. *)
Require Import NX.Model.Pool NX.gen.PoolProg NX.Proofs.PoolProofs NX.Proofs.PoolGen.

Theorem c06_pool_count_read_is_exact :
  forall n ls, 1 <= n ->
    let s := p_run barrier_gen (p_init n) ls in
    pmain s = MRead -> pmsg s = pnet s.
Proof. intros n ls Hn s H. exact (proj1 (pool_gen_idle_read_exact n ls Hn H)). Qed.
Print Assumptions c06_pool_count_read_is_exact.

Theorem c06_pool_every_count_read_was_exact :
  forall n ls m k, 1 <= n -> In (m, k) (preads (p_run barrier_gen (p_init n) ls)) -> m = k.
Proof. exact pool_gen_every_read_exact. Qed.
Print Assumptions c06_pool_every_count_read_was_exact.

(* F5: with the barrier of the pinned tree (count folded AFTER the worker cleared its bit) the main thread
   reads -1 although every message sent was received: the executor then panics on the conversion of the
   count (or, with the roles of the two workers exchanged, reports one unprocessed message) *)
Example c06_pool_count_refuted_on_pinned_tree :
  let s := p_run barrier_pinned (p_init 2) sched_pinned in
  pmain s = MRead /\ pmsg s = (-1)%Z /\ pnet s = 0%Z /\ Pool.quiescent s.
Proof. exact pool_pinned_refuted. Qed.

(* ---- the thread counts contributed through one mailbox channel (Model/Chan.v) ----
   For the programs GENERATED from the current channel.rs (count +1 after a successful push, -1 after a
   successful pop): whenever no sender is between its push and its count update and the receiver is not between
   its pop and its count update, the sum of the contributions equals the number of messages queued in that
   mailbox, for every number of senders, capacity and interleaving.  Together with c06_pool_count_read_is_exact
   (the executor reads the exact sum of the thread counts) this is the multi-threaded counterpart of
   c06_count_exact_step. *)
Require Import NX.Model.Chan NX.gen.ChanProg NX.Proofs.ChanInv NX.Proofs.ChanCount NX.Proofs.ChanGen.

Theorem c06_chan_count_is_queued :
  forall c n ls,
    let s := c_run chan_gen (c_init c n) ls in
    (forall x, inc_pending (spc_ (S_ s x)) = false) -> dec_pending (rpc_ s) = false ->
    ccount s = Z.of_nat (cavail s).
Proof. exact chan_gen_count_is_queued. Qed.
Print Assumptions c06_chan_count_is_queued.

(* ---- nested simulations on one thread: the single-threaded executor's run (Model/StRun.v) ----
   For the body of ExecutorInner::run GENERATED from the current executor/st_executor.rs, whatever the tasks do
   (any change d of the thread's count, completion or a panic of any model) and whatever the enclosing
   executor had in the two thread-locals: the run leaves THREAD_MSG_COUNT and CURRENT_MODEL_ID as it found
   them on every path, keeps its own count, and reports a panic before unprocessed messages.  F6 and F7 are the
   refutation of this specification for the body of the pinned tree. *)
Require Import NX.Model.StRun NX.gen.StRunProg NX.Proofs.StRunProofs NX.Proofs.StRunGen.

Theorem c06_strun_source_is_proved_program : strun_gen = strun_fixed.
Proof. exact strun_gen_is_proved. Qed.
Print Assumptions c06_strun_source_is_proved_program.

Theorem c06_strun_nested_run_restores_thread_locals : sr_spec strun_gen.
Proof. exact strun_gen_spec. Qed.
Print Assumptions c06_strun_nested_run_restores_thread_locals.

Theorem c06_strun_refuted_on_pinned_tree : ~ sr_spec strun_pinned.
Proof. exact strun_pinned_not_spec. Qed.
Print Assumptions c06_strun_refuted_on_pinned_tree.
