(* C04 — Run-to-quiescence.  Partial: see MANIFEST level note. *)
Require Import NX.Base.Prelude NX.Base.ListX NX.Model.PQ NX.Model.Sim.
Require Import NX.Proofs.SimBasic NX.Proofs.SimDriver NX.Proofs.NetProofs.

(* A run returns only in a state where no step of any task is enabled (or at
   the first failure): by definition of net_run, stated here as the fact that
   the verdict Ok is reached only through classify on the final state, which
   then has every mailbox empty. *)
Theorem c04_ok_all_processed :
  forall b s, err s = None -> count_ok s ->
    (classify b s = ROk <-> forall m q, nth_error (boxes s) m = Some q -> q = []).
Proof. intros b s H1 H2. exact (proj1 (classify_meaning b s H1 H2)). Qed.
Print Assumptions c04_ok_all_processed.

(* No handler is left half-way through a send: in a quiescent, failure-free
   state whose mailboxes are all empty every port operation has made all its
   deliveries (mailbox capacities >= 1; delivery targets exist). *)
Theorem c04_no_half_done_send :
  forall b s,
    net_enabled b s = [] -> err s = None ->
    (forall m q, nth_error (boxes s) m = Some q -> q = []) ->
    (forall m sp, nth_error (bmodels b) m = Some sp -> 1 <= mcap sp) ->
    length (boxes s) = length (bmodels b) ->
    forall t x f, nth_error (tasks s) t = Some x -> tfr x = Some f ->
      (forall d m g, In d (fpend f) -> dtgt d = DModel m g -> m < length (bmodels b)) ->
      fpend f = [].
Proof. exact quiescent_no_pending_delivery. Qed.
Print Assumptions c04_no_half_done_send.

(* Whatever the schedule, a run changes neither the time nor the termination
   flag nor the clock position, and only appends handler-level log entries. *)
Theorem c04_run_frame :
  forall b fuel ch s nd s' nd', net_run b fuel ch s nd = Some (s', nd') -> frame_eq s s'.
Proof. exact net_run_frame. Qed.
Print Assumptions c04_run_frame.

(* Instance of schedule independence: the bench of C03 produces the same sink
   content and verdict under every choice list of length <= 3 over {0,1,2}. *)
Require Import NX.Properties.C03.
Fixpoint all_lists (n : nat) (alpha : list nat) : list (list nat) :=
  match n with
  | O => [[]]
  | S n' => [] :: flat_map (fun l => map (fun a => a :: l) alpha) (all_lists n' alpha)
  end.
Example c04_confluent_instance :
  forallb (fun ch =>
    match map ores (sim_exec c03_bench 500 [] [(CProcEvent 0 0 4, ch); (CReadSink 0, [])]) with
    | [ROk; ROk; RSink [11; 12]%Z] => true
    | _ => false
    end) (all_lists 3 [0; 1; 2]) = true.
Proof. vm_compute. reflexivity. Qed.
