(* C04 — Run-to-quiescence.  Partial: see MANIFEST level note. *)
Require Import NX.Base.Prelude NX.Base.ListX NX.Model.PQ NX.Model.Sim.
Require Import NX.Proofs.SimBasic NX.Proofs.SimDriver NX.Proofs.NetProofs.

(* A run returns only in a state where no step of any task is enabled (or at
   the first failure): by definition of net_run, stated here as the fact that
   the verdict Ok is reached only through classify on the final state, which
   then has every mailbox empty. *)
Theorem c04_ok_all_processed :
  forall b s, err s = None -> count_ok s ->
    (classify b s = ROk <-> forall m q, nth_error (boxes s) m = Some q -> q = []).
Proof. intros b s H1 H2. exact (proj1 (classify_meaning b s H1 H2)). Qed.
Print Assumptions c04_ok_all_processed.

(* No handler is left half-way through a send: in a quiescent, failure-free
   state whose mailboxes are all empty every port operation has made all its
   deliveries (mailbox capacities >= 1; delivery targets exist). *)
Theorem c04_no_half_done_send :
  forall b s,
    net_enabled b s = [] -> err s = None ->
    (forall m q, nth_error (boxes s) m = Some q -> q = []) ->
    (forall m sp, nth_error (bmodels b) m = Some sp -> 1 <= mcap sp) ->
    length (boxes s) = length (bmodels b) ->
    forall t x f, nth_error (tasks s) t = Some x -> tfr x = Some f ->
      (forall d m g, In d (fpend f) -> dtgt d = DModel m g -> m < length (bmodels b)) ->
      fpend f = [].
Proof. exact quiescent_no_pending_delivery. Qed.
Print Assumptions c04_no_half_done_send.

(* Whatever the schedule, a run changes neither the time nor the termination
   flag nor the clock position, and only appends handler-level log entries. *)
Theorem c04_run_frame :
  forall b fuel ch s nd s' nd', net_run b fuel ch s nd = Some (s', nd') -> frame_eq s s'.
Proof. exact net_run_frame. Qed.
Print Assumptions c04_run_frame.

(* Instance of schedule independence: the bench of C03 produces the same sink
   content and verdict under every choice list of length <= 3 over {0,1,2}. *)
Require Import NX.Properties.C03.
Fixpoint all_lists (n : nat) (alpha : list nat) : list (list nat) :=
  match n with
  | O => [[]]
  | S n' => [] :: flat_map (fun l => map (fun a => a :: l) alpha) (all_lists n' alpha)
  end.
Example c04_confluent_instance :
  forallb (fun ch =>
    match map ores (sim_exec c03_bench 500 [] [(CProcEvent 0 0 4, ch); (CReadSink 0, [])]) with
    | [ROk; ROk; RSink [11; 12]%Z] => true
    | _ => false
    end) (all_lists 3 [0; 1; 2]) = true.
Proof. vm_compute. reflexivity. Qed.

(* ---- schedule independence (the second sentence of the property), Model/Conf.v ----
   (a) the abstract statement: a step is a pool of messages, a schedule picks ANY message next, the
   handler's sends are a function `react` of the message content; every complete schedule logs the
   same multiset of invocations, for every message type, every `react`, every pool, unboundedly. *)
Require Import NX.Model.Conf NX.Proofs.ConfProofs NX.Proofs.ConfNet.

Theorem c04_schedule_independence_pool :
  forall (M : Type) (react : M -> list M) P L1,
    cruns react P L1 -> forall P' L2, Permutation P P' -> cruns react P' L2 -> Permutation L1 L2.
Proof. exact conf_unique. Qed.
Print Assumptions c04_schedule_independence_pool.

(* no schedule gets stuck or runs longer: a partial schedule of a pool that has one complete schedule
   can always be completed, to the same multiset *)
Theorem c04_every_schedule_completes_pool :
  forall (M : Type) (react : M -> list M) P L2 Q,
    pruns react P L2 Q -> forall L1, cruns react P L1 ->
    exists L3, cruns react Q L3 /\ Permutation L1 (L2 ++ L3).
Proof. exact conf_complete. Qed.
Print Assumptions c04_every_schedule_completes_pool.

(* outputs that are a function of the invocation (sink writes, replies) form the same multiset too *)
Theorem c04_schedule_independent_outputs :
  forall (M : Type) (react : M -> list M) (O : Type) (out : M -> list O) P L1 L2,
    cruns react P L1 -> cruns react P L2 -> Permutation (flat_map out L1) (flat_map out L2).
Proof. exact conf_outputs. Qed.
Print Assumptions c04_schedule_independent_outputs.

(* (b) the net model of Sim.v (the model the implementation is compared with) refines the pool: for a
   bench whose scripts are sends, queries and scheduling requests (bench_plain), every run of the net model under every
   choice list is a schedule of the pool of its start state, logging exactly the picked invocations *)
Theorem c04_net_run_is_pool_schedule :
  forall b, bench_plain b = true -> forall fuel ch s nd s' nd',
    NInv s -> net_run b fuel ch s nd = Some (s', nd') ->
    NInv s' /\ exists L,
      pruns (bench_react b) (pool_of b s) L (pool_of b s') /\
      invs (log s') = rev (filter cm_logged L) ++ invs (log s) /\
      sinks s' = fold_left sink_apply L (sinks s).
Proof. exact net_run_is_pool_schedule. Qed.
Print Assumptions c04_net_run_is_pool_schedule.

(* (c) hence, on the net model: two runs from one state under ANY two choice lists that end with an
   empty pool log the same multiset of handler invocations and perform the same multiset of sink writes *)
Theorem c04_schedule_independence :
  forall b s f1 ch1 nd1 s1 nd1' f2 ch2 nd2 s2 nd2',
    bench_plain b = true -> NInv s ->
    net_run b f1 ch1 s nd1 = Some (s1, nd1') -> net_run b f2 ch2 s nd2 = Some (s2, nd2') ->
    pool_of b s1 = [] -> pool_of b s2 = [] ->
    exists l1 l2 w1 w2,
      invs (log s1) = l1 ++ invs (log s) /\ invs (log s2) = l2 ++ invs (log s) /\ Permutation l1 l2 /\
      sinks s1 = fold_left sink_apply w1 (sinks s) /\ sinks s2 = fold_left sink_apply w2 (sinks s) /\
      Permutation w1 w2.
Proof. exact net_confluent. Qed.
Print Assumptions c04_schedule_independence.

Theorem c04_no_schedule_does_more :
  forall b s f1 ch1 nd1 s1 nd1' f2 ch2 nd2 s2 nd2',
    bench_plain b = true -> NInv s ->
    net_run b f1 ch1 s nd1 = Some (s1, nd1') -> net_run b f2 ch2 s nd2 = Some (s2, nd2') ->
    pool_of b s1 = [] ->
    exists l1 l2, invs (log s1) = l1 ++ invs (log s) /\ invs (log s2) = l2 ++ invs (log s) /\
                  length l2 <= length l1.
Proof. exact net_no_longer_run. Qed.
Print Assumptions c04_no_schedule_does_more.

(* (d) the first sentence, on the net model: on a VALID plain bench (capacities >= 1, connection targets
   exist, queries go to models with a larger index - bench_valid) a run from a well-formed state (QInv)
   that ends without failure and with every mailbox empty - which is when the call returns Ok - has an
   EMPTY POOL: every message sent has been processed, no handler is left half-way (not in a send, not
   waiting for a reply, not before a later op), no init is pending.  The proof carries, for every reply
   still awaited, a carrier of the request (in a sender's hands, in a mailbox, or served by a frame of a
   model with a larger index) through every step of the net model. *)
Require Import NX.Proofs.ConfQuiet.

Theorem c04_ok_means_every_computation_finished :
  forall b fuel ch s nd s' nd',
    bench_valid b -> NInv s -> QInv b s -> net_run b fuel ch s nd = Some (s', nd') ->
    err s' = None -> (forall m q, nth_error (boxes s') m = Some q -> q = []) ->
    pool_of b s' = [].
Proof. exact net_run_ok_pool_empty. Qed.
Print Assumptions c04_ok_means_every_computation_finished.

(* (e) hence schedule independence with no hypothesis on the final pools *)
Theorem c04_schedule_independence_of_ok_runs :
  forall b s f1 ch1 nd1 s1 nd1' f2 ch2 nd2 s2 nd2',
    bench_valid b -> NInv s -> QInv b s ->
    net_run b f1 ch1 s nd1 = Some (s1, nd1') -> net_run b f2 ch2 s nd2 = Some (s2, nd2') ->
    err s1 = None -> (forall m q, nth_error (boxes s1) m = Some q -> q = []) ->
    err s2 = None -> (forall m q, nth_error (boxes s2) m = Some q -> q = []) ->
    exists l1 l2 w1 w2,
      invs (log s1) = l1 ++ invs (log s) /\ invs (log s2) = l2 ++ invs (log s) /\ Permutation l1 l2 /\
      sinks s1 = fold_left sink_apply w1 (sinks s) /\ sinks s2 = fold_left sink_apply w2 (sinks s) /\
      Permutation w1 w2.
Proof. exact net_confluent_ok. Qed.
Print Assumptions c04_schedule_independence_of_ok_runs.

(* both invariants are kept by every step, and both hypotheses are decidable (evaluated at run time on the
   generated benches, at the start of every call) *)
Theorem c04_invariants_kept_by_every_step :
  forall b s l s', bench_valid b -> NInv s -> QInv b s -> net_step b s l = Some s' -> NInv s' /\ QInv b s'.
Proof.
  intros b s l s' BV NI Q H. split.
  - exact (proj1 (net_step_sim b s l s' (bv_plain b BV) NI H)).
  - exact (net_step_QInv b s l s' BV NI Q H).
Qed.
Print Assumptions c04_invariants_kept_by_every_step.

Theorem c04_bench_validity_check_is_sound : forall b, bench_valid_check b = true -> bench_valid b.
Proof. exact bench_valid_check_sound. Qed.
Print Assumptions c04_bench_validity_check_is_sound.
Theorem c04_state_check_is_sound : forall b s, qinv_check b s = true -> QInv b s.
Proof. exact qinv_check_sound. Qed.
Print Assumptions c04_state_check_is_sound.

Example c04_quiescence_nonvacuous :
  bench_valid conf_bench /\ QInv conf_bench conf_start /\
  exists s1 nd1, net_run conf_bench 500 [] conf_start false = Some (s1, nd1) /\ err s1 = None /\
                 forallb (fun q => match q with [] => true | _ => false end) (boxes s1) = true.
Proof. exact quiescence_nonvacuous. Qed.

(* the hypotheses are decidable and met: ninv_check is evaluated by the correspondence runner at the start
   of every init / process call of every plain bench, and the pool is checked empty whenever the call
   returns Ok (tools/props/confprops.py) *)
Theorem c04_invariant_check_is_sound : forall s, ninv_check s = true -> NInv s.
Proof. exact ninv_check_sound. Qed.
Print Assumptions c04_invariant_check_is_sound.

Example c04_schedule_independence_nonvacuous :
  bench_plain conf_bench = true /\ NInv conf_start /\
  exists s1 s2 nd1 nd2,
    net_run conf_bench 500 [] conf_start false = Some (s1, nd1) /\
    net_run conf_bench 500 [3; 1; 4; 1; 5; 9; 2; 6; 5; 3; 5; 8; 9; 7; 9] conf_start false = Some (s2, nd2) /\
    pool_of conf_bench s1 = [] /\ pool_of conf_bench s2 = [] /\
    invs (log s1) <> invs (log s2) /\ length (invs (log s1)) = 10.
Proof. exact net_confluent_nonvacuous. Qed.

(* ---- the worker-pool protocol of the multi-threaded executor (Model/Pool.v) ----
   For the barrier program GENERATED from the current executor/mt_executor.rs, for every pool size,
   every interleaving of the workers and the main thread at the granularity of one shared access and
   everything the tasks may do (wake tasks, send, receive): when Executor::run finds the pool idle and
   reads the message count, no task is left in the injector, in a local queue, in a fast slot or in a
   worker's hands, and no worker is running a task. *)
Require Import NX.Model.Pool NX.gen.PoolProg NX.Proofs.PoolProofs NX.Proofs.PoolCons NX.Proofs.PoolGen.

Theorem c04_pool_source_is_proved_program : barrier_gen = barrier_fixed.
Proof. exact gen_barrier_is_proved. Qed.
Print Assumptions c04_pool_source_is_proved_program.

Theorem c04_pool_source_call_order_is_modelled :
  skel_worker_gen = skel_worker_modelled /\ skel_sched_gen = skel_sched_modelled /\
  skel_run_gen = skel_run_modelled /\ skel_act_relaxed_gen = skel_act_relaxed_modelled /\
  skel_act_gen = skel_act_modelled /\ skel_try_inactive_gen = skel_try_inactive_modelled /\
  skel_set_inactive_gen = skel_set_inactive_modelled /\ skel_is_idle_gen = skel_is_idle_modelled /\
  skel_act_all_gen = skel_act_all_modelled.
Proof. exact gen_skeleton_is_modelled. Qed.
Print Assumptions c04_pool_source_call_order_is_modelled.

Theorem c04_pool_run_returns_only_at_quiescence :
  forall n ls, 1 <= n ->
    let s := p_run barrier_gen (p_init n) ls in
    pmain s = MRead -> Pool.quiescent s.
Proof. intros n ls Hn s H. exact (proj2 (pool_gen_idle_read_exact n ls Hn H)). Qed.
Print Assumptions c04_pool_run_returns_only_at_quiescence.

(* every task spawned before the run or woken during it has been taken from a queue and run (each exactly
   once: tasks are conserved by every step, for any barrier program) when Executor::run reads the idle pool *)
Theorem c04_pool_every_task_was_run :
  forall n ls, 1 <= n ->
    let s := p_run barrier_gen (p_init n) ls in
    pmain s = MRead -> pran s = psched s.
Proof. exact pool_gen_all_tasks_run. Qed.
Print Assumptions c04_pool_every_task_was_run.

Theorem c04_pool_tasks_conserved :
  forall B n ls, let s := p_run B (p_init n) ls in
    psched s = pran s + pinj s + PoolCons.sumload (pws s).
Proof. exact PoolCons.pool_run_cons. Qed.
Print Assumptions c04_pool_tasks_conserved.

(* during a run, an idle pool (no bit set in active_workers) means that nothing is left to do *)
Theorem c04_pool_idle_means_quiescent :
  forall n ls, 1 <= n ->
    let s := p_run barrier_gen (p_init n) ls in
    (forall v, wact (Pool.W s v) = false) -> pmain s <> MIdle -> (forall a, pmain s <> MAct a) ->
    Pool.quiescent s.
Proof. intros n ls Hn s H1 H2 H3. exact (proj2 (pool_gen_idle_means_quiescent n ls Hn H1 H2 H3)). Qed.
Print Assumptions c04_pool_idle_means_quiescent.

(* a worker whose bit is clear holds no task and has folded its message count *)
Theorem c04_pool_work_only_on_active_workers :
  forall n ls j, 1 <= n ->
    let s := p_run barrier_gen (p_init n) ls in
    wact (Pool.W s j) = false -> no_work (Pool.W s j) /\ wcnt (Pool.W s j) = 0%Z.
Proof. exact pool_gen_work_only_on_active. Qed.
Print Assumptions c04_pool_work_only_on_active_workers.

(* the assertion of try_set_worker_inactive (the caller's bit is set) never fails *)
Theorem c04_pool_no_assert_failure :
  forall n ls, 1 <= n -> ppanic (p_run barrier_gen (p_init n) ls) = 0.
Proof. exact pool_gen_no_assert_failure. Qed.
Print Assumptions c04_pool_no_assert_failure.

(* "nor blocks forever": whenever Executor::run is blocked in park() without a pending unpark, some worker
   can perform its next step (it is not parked, or its token / the unpark that will give it is pending, or it
   is about to unpark the main thread): no reachable state has every thread blocked.  This is
   deadlock-freedom of the protocol, not termination (which also needs fairness and terminating tasks). *)
Theorem c04_pool_run_never_blocked_with_all_workers_blocked :
  forall n ls, 1 <= n ->
    let s := p_run barrier_gen (p_init n) ls in
    pmain s = MPark -> pmtok s = false -> exists j c s', p_step barrier_gen s (LW j c) = Some s'.
Proof. exact pool_gen_no_global_deadlock. Qed.
Print Assumptions c04_pool_run_never_blocked_with_all_workers_blocked.

(* non-vacuity: two workers, a task that wakes two tasks, one of which is stolen; the run ends *)
Example c04_pool_nonvacuous :
  let s := p_run barrier_gen (p_init 2) sched_fixed in
  pmain s = MRead /\ pmsg s = 0%Z /\ length (pws s) = 2.
Proof. vm_compute. auto. Qed.

(* ---- the injector queue (Model/Injector.v, tied to injector.rs by operation sequences) ----
   what Pool.v assumes of it: is_empty() is exact, pop_bucket returns a non-empty bucket unless nothing is
   stored, and tasks are neither lost nor duplicated *)
Require Import NX.Model.Injector NX.Proofs.InjectorProofs.

Theorem c04_injector_flag_exact :
  forall cap ops, 1 <= cap -> Forall (op_ok cap) ops ->
    let s := fst (inj_run cap inj_new ops) in iflag s = true <-> inj_tasks s = [].
Proof. exact inj_flag_exact. Qed.
Print Assumptions c04_injector_flag_exact.

Theorem c04_injector_invariant :
  forall cap ops, 1 <= cap -> Forall (op_ok cap) ops -> inj_inv cap (fst (inj_run cap inj_new ops)).
Proof. exact inj_run_inv. Qed.
Print Assumptions c04_injector_invariant.

Theorem c04_injector_pop :
  forall cap s, inj_inv cap s ->
    match inj_pop s with
    | (s', None) => inj_tasks s = [] /\ s' = s
    | (s', Some b) => b <> [] /\ Permutation (inj_tasks s) (b ++ inj_tasks s')
    end.
Proof. exact inj_pop_spec. Qed.
Print Assumptions c04_injector_pop.

Theorem c04_injector_insert :
  forall cap s t, Permutation (inj_tasks (inj_insert cap s t)) (t :: inj_tasks s).
Proof. exact inj_insert_spec. Qed.
Print Assumptions c04_injector_insert.

Theorem c04_injector_push_bucket :
  forall s b, inj_tasks (inj_push_bucket s b) = inj_tasks s ++ b.
Proof. exact inj_push_spec. Qed.
Print Assumptions c04_injector_push_bucket.
