(* C18 — Clock synchronisation gates every time step. *)
Require Import NX.Base.Prelude NX.Base.ListX NX.Model.PQ NX.Model.Sim.
Require Import NX.Proofs.SimBasic NX.Proofs.SimDriver NX.Proofs.SimQueue NX.Proofs.SimTop.

(* What one (bounded) step writes to the log, for every bench, state and
   schedule: nothing; or the time write ETime T, then exactly one clock call
   EClock T, then only handler-level entries (a run never calls the clock nor
   writes the time).  If the clock answers a lag above the tolerance the call
   returns OutOfSync(lag), nothing at all follows the clock call and the
   simulation is terminated; otherwise the call never returns OutOfSync. *)
Theorem c18_step_gate :
  forall b fuel ch s bound s' r t nd,
    step_bounded b fuel ch s bound = (s', r, t, nd) -> r <> RHang ->
    (log s' = log s /\ clockpos s' = clockpos s /\ t = None) \/
    exists T l, log s' = l ++ EClock T :: ETime T :: log s /\ forallb plain_entry l = true /\
                clockpos s' = S (clockpos s) /\
                (forall lag, over_tolerance b (nth (clockpos s) (bclock b) None) = Some lag ->
                             r = ROutOfSync lag /\ l = [] /\ terminated s' = true) /\
                (over_tolerance b (nth (clockpos s) (bclock b) None) = None -> forall lag, r <> ROutOfSync lag).
Proof. exact step_bounded_log. Qed.
Print Assumptions c18_step_gate.

(* The lag test: above the tolerance, and only when a tolerance is set. *)
Theorem c18_tolerance :
  forall b ans lag, over_tolerance b ans = Some lag ->
    ans = Some lag /\ exists tol, btol b = Some tol /\ (tol < lag)%Z.
Proof. exact over_tolerance_some. Qed.
Print Assumptions c18_tolerance.

(* Initialisation: time write, then synchronize(t0), before any init entry. *)
Theorem c18_init_first :
  forall b fuel ich s r nd,
    sim_init b fuel ich = (s, r, nd) ->
    exists l, log s = l ++ [EClock (bt0 b); ETime (bt0 b)] /\ forallb plain_entry l = true.
Proof. exact init_log. Qed.
Print Assumptions c18_init_first.

(* The times handed to the clock never decrease: each is the time of a step
   (c18_step_gate), and those never decrease. *)
Theorem c18_monotone_args :
  forall b fuel ch s bound s' r t nd,
    q_inv s -> step_bounded b fuel ch s bound = (s', r, t, nd) -> r <> RHang ->
    q_inv s' /\ (now s <= now s')%Z /\
    (forall x, t = Some x -> now s' = x /\ (now s < x)%Z /\ le_bound x bound = true) /\
    (t = None -> r = ROk -> now s' = now s).
Proof. exact step_bounded_inv. Qed.
Print Assumptions c18_monotone_args.

(* Finding F3 on the pinned tree: the final jump of step_until ignored the lag. *)
Definition c18_bench (f3 : bool) : bench :=
  {| bmodels := []; bsinks := []; bsources := []; bclock := [None; Some 9%Z]; btol := Some 1%Z; bt0 := 0;
     bugF1 := false; bugF2 := false; bugF3 := f3; bugF4 := false |}.
Example c18_refuted_on_pinned_tree :
  map ores (sim_exec (c18_bench true) 100 [] [(CStepUntil (DAbs 3), [])]) = [ROk; ROk].
Proof. vm_compute. reflexivity. Qed.
Example c18_holds_after_fix :
  map ores (sim_exec (c18_bench false) 100 [] [(CStepUntil (DAbs 3), []); (CStep, [])]) = [ROk; ROutOfSync 9; RTerminated].
Proof. vm_compute. reflexivity. Qed.
