(* C05 — Model isolation: one computation at a time per model. *)
Require Import NX.Base.Prelude NX.Base.ListX NX.Model.PQ NX.Model.Sim NX.Model.TaskSM NX.Model.TaskInv.
Require Import NX.Proofs.SimBasic NX.Proofs.NetProofs NX.Proofs.TaskProofs NX.Proofs.TaskMeaning.

(* Executor level: a task's future is polled by at most one thread at a time
   whatever the interleaving of wakers, runners and cancellers (a second
   concurrent runner would bump badrun; at most one Runnable exists). *)
Theorem c05_one_poller :
  forall ops s, s = ts_run init_forget ops \/ s = ts_run init_spawn ops ->
    badrun s = 0 /\ badpoll s = 0 /\ queued s + active s <= 1.
Proof. exact one_poller. Qed.
Print Assumptions c05_one_poller.

(* Model level: while a model's task is inside its init or a handler -
   including the time it is suspended on a send or a query - it cannot start
   another message; the next message starts only after the frame is released. *)
Theorem c05_handler_sequential :
  forall b s t x f, nth_error (tasks s) t = Some x -> tfr x = Some f -> step_start b s t = None.
Proof. exact busy_task_cannot_start. Qed.
Print Assumptions c05_handler_sequential.

(* and only the model's own task ever consumes from its mailbox *)
Theorem c05_single_consumer :
  forall b s t s' x m' q,
    step_start b s t = Some s' -> nth_error (tasks s) t = Some x ->
    nth_error (boxes s) m' = Some q -> nth_error (boxes s') m' <> Some q -> tk x = TKModel m'.
Proof. exact start_only_own_mailbox. Qed.
Print Assumptions c05_single_consumer.
