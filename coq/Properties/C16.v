(* C16 — Every model is initialised exactly once, before it handles anything. *)
Require Import NX.Base.Prelude NX.Base.ListX NX.Model.PQ NX.Model.Sim.
Require Import NX.Proofs.SimBasic NX.Proofs.NetProofs NX.Proofs.NetInit.

(* The first start of a model task runs its init, exactly then: EInit is logged,
   the flag cleared, the init script installed, the mailbox left as it is
   (messages sent earlier by other models' inits are kept). *)
Theorem c16_first_start_is_init :
  forall b s t x m sp,
    nth_error (tasks s) t = Some x -> tk x = TKModel m -> tfr x = None -> tdone x = false ->
    tinit x = true -> nth_error (bmodels b) m = Some sp ->
    step_start b s t = Some (add_log (set_task s t (tset_tfr (tset_tinit x false)
                                       (Some (empty_frame (minit sp) 0 None)))) (EInit m (now s))).
Proof. exact start_runs_init. Qed.
Print Assumptions c16_first_start_is_init.

(* A start logs an init iff the task was not initialised yet (and then touches
   no mailbox); on an initialised task it logs at most one handler entry, of
   that task's own model. *)
Theorem c16_init_before_any_handler :
  forall b s t s' x,
    step_start b s t = Some s' -> nth_error (tasks s) t = Some x ->
    (tinit x = true -> boxes s' = boxes s /\ exists m, tk x = TKModel m /\ log s' = EInit m (now s) :: log s) /\
    (tinit x = false -> log s' = log s \/
       exists e m, tk x = TKModel m /\ log s' = e :: log s /\ is_handler_entry e = true /\ entry_model e = Some m).
Proof. exact start_log. Qed.
Print Assumptions c16_init_before_any_handler.

(* No other step ever logs an init or a handler entry. *)
Theorem c16_only_starts_init :
  forall b s l s',
    net_step b s l = Some s' -> (forall t, l <> LStart t) ->
    exists added, log s' = added ++ log s /\
      forallb (fun e => negb (is_init_entry e) && negb (is_handler_entry e)) added = true.
Proof. exact other_steps_log. Qed.
Print Assumptions c16_only_starts_init.

(* Trace level: the initialisation invariant - the task of model m has logged
   exactly one init once its flag is cleared, and neither an init nor any
   handler entry while the flag is still set - holds initially and is kept by
   every step of every schedule, hence along every run. *)
Theorem c16_init_once_invariant_step :
  forall b s l s', init_inv s -> net_step b s l = Some s' -> init_inv s'.
Proof. exact net_step_init_inv. Qed.
Print Assumptions c16_init_once_invariant_step.

Theorem c16_init_once_invariant_run :
  forall b fuel ch s nd s' nd', init_inv s -> net_run b fuel ch s nd = Some (s', nd') -> init_inv s'.
Proof. exact net_run_init_inv. Qed.
Print Assumptions c16_init_once_invariant_run.

Theorem c16_initial_state :
  forall b l, (forall m, inits m l = 0 /\ handled m l = 0) -> init_inv (set_log (init_state b) l).
Proof. exact init_state_init_inv. Qed.
Print Assumptions c16_initial_state.

(* ... and when a run (in particular the one of SimInit::init) reaches quiescence
   without failure, every added model has been initialised. *)
Theorem c16_all_initialised_at_quiescence :
  forall b s t x m sp,
    net_enabled b s = [] -> err s = None ->
    nth_error (tasks s) t = Some x -> tk x = TKModel m -> tdone x = false -> tfr x = None ->
    nth_error (bmodels b) m = Some sp -> tinit x = false.
Proof. exact quiescent_all_initialised. Qed.
Print Assumptions c16_all_initialised_at_quiescence.

(* Names: a sub-model is known as parent.child (paths of ancestors, root first;
   an empty name shows as <unknown>, here None). *)
Definition c16_bench : bench :=
  {| bmodels := [{| mcap := 2; mplace := Added; mparent := None; mnamed := true; minit := [OSend 0 (EConst 5)];
                    mhandlers := [[]]; mrepliers := [];
                    mouts := [[{| ckeep := KAll; cadd := 0; ctgt := TgtModel 2 0 |}]]; mreqs := [] |};
                 {| mcap := 2; mplace := Added; mparent := Some 0; mnamed := false; minit := [];
                    mhandlers := [[]]; mrepliers := []; mouts := []; mreqs := [] |};
                 {| mcap := 2; mplace := Added; mparent := Some 1; mnamed := true; minit := [];
                    mhandlers := [[OPanic 3]]; mrepliers := []; mouts := []; mreqs := [] |}];
     bsinks := []; bsources := []; bclock := []; btol := None; bt0 := 0;
     bugF1 := false; bugF2 := false; bugF3 := false; bugF4 := false |}.
Example c16_names_and_early_messages :
  forall c, c < 4 ->
  map ores (sim_exec c16_bench 500 [c; c; c] []) = [RPanic [Some 0; None; Some 2] 3].
Proof. intros c H. destruct c as [|[|[|[|c]]]]; try lia; vm_compute; reflexivity. Qed.
