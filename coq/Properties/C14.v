(* C14 — Query replies: one per replier, matched, ordered; port clones share
   their connection list.  Partial: see MANIFEST level note. *)
Require Import NX.Base.Prelude NX.Base.ListX NX.Model.PQ NX.Model.Sim NX.Model.CachedRw.
Require Import NX.Proofs.SimBasic NX.Proofs.NetProofs NX.Proofs.CachedRwProofs.

(* A query broadcast addresses exactly the connections whose filter accepts the
   request, each with its mapped request, and numbers their reply slots
   consecutively in connection order. *)
Theorem c14_requests :
  forall t qs v slot,
    query_deliveries t slot qs v =
    map (fun p : nat * qconn =>
           {| dtgt := DModel (qmodel (snd p)) {| minp := 0; mval := (v + qadd (snd p))%Z;
                                                mkd := KRequest (Some t) (fst p) (qrep (snd p)) (qradd (snd p)) |};
              dthrow := true |})
        (combine (seqn slot (length (filter (fun q => keep_ok (qkeep q) v) qs)))
                 (filter (fun q => keep_ok (qkeep q) v) qs)).
Proof. exact query_deliveries_spec. Qed.
Print Assumptions c14_requests.

(* The requester returns only after ALL accepted repliers have replied ... *)
Theorem c14_waits_for_all :
  forall b s t x f,
    nth_error (tasks s) t = Some x -> tfr x = Some f -> fpend f = [] -> fwait f <> [] ->
    opt_all (fwait f) = false -> step_op b s t = None.
Proof. exact query_waits_for_all. Qed.
Print Assumptions c14_waits_for_all.

(* ... and then yields exactly the replies, in slot = connection order, whatever
   the order in which they arrived. *)
Theorem c14_yields_in_connection_order :
  forall b s t x f m,
    nth_error (tasks s) t = Some x -> tfr x = Some f -> fpend f = [] -> fwait f <> [] ->
    opt_all (fwait f) = true -> task_model x = Some m ->
    step_op b s t = Some (add_log (set_task s t (tset_tfr x (Some (fset_fwait f [])))) (EReplies m (opt_vals (fwait f)))).
Proof. exact query_yields_in_order. Qed.
Print Assumptions c14_yields_in_connection_order.

(* A reply fills exactly the slot it was issued for. *)
Theorem c14_reply_matched :
  forall s rt slot v y f,
    nth_error (tasks s) rt = Some y -> tfr y = Some f ->
    nth_error (tasks (deliver_reply s (Some (Some rt, slot, v)))) rt =
    Some (tset_tfr y (Some (fset_fwait f (lupd (fwait f) slot (Some v))))).
Proof. exact reply_fills_its_slot. Qed.
Print Assumptions c14_reply_matched.

(* Clones of a port share one connection list (CachedRwLock): after a connect
   (write) through ANY clone, the next send (write_scratchpad) or read through
   EVERY clone starts from the updated list. *)
Theorem c14_clones_share :
  forall s i x j c,
    crw_inv s -> nth_error (clones s) i <> None -> nth_error (clones s) j = Some c ->
    let s' := crw_write s i x in
    snd (crw_read s' j) = shval s ++ [x] /\
    forall y, snd (crw_scratch s' j y) = (shval s ++ [x]) ++ [y].
Proof. exact write_reaches_every_clone. Qed.
Print Assumptions c14_clones_share.

(* the hypothesis crw_inv holds in every reachable state *)
Theorem c14_clones_invariant :
  forall v ops, crw_inv (crw_exec (crw_new v) ops).
Proof. intros v ops. apply crw_exec_inv, crw_new_inv. Qed.
Print Assumptions c14_clones_invariant.

(* scratchpad edits (the per-send working copy) never reach other clones *)
Theorem c14_scratchpad_local :
  forall s i x,
    let s' := fst (crw_scratch s i x) in
    shval s' = shval s /\ shepoch s' = shepoch s /\
    forall j, j <> i -> nth_error (clones s') j = nth_error (clones s) j.
Proof. exact scratch_is_local. Qed.
Print Assumptions c14_scratchpad_local.

(* end-to-end instance: three repliers, the middle one filtered out for odd
   requests, a capacity-1 replier mailbox; every choice list of length <= 3 *)
Definition c14_bench : bench :=
  {| bmodels := [{| mcap := 2; mplace := Added; mparent := None; mnamed := true; minit := [];
                    mhandlers := [[OQuery 0 EIn]]; mrepliers := []; mouts := [];
                    mreqs := [[{| qkeep := KAll; qadd := 0; qmodel := 1; qrep := 0; qradd := 0 |};
                               {| qkeep := KEven; qadd := 1; qmodel := 2; qrep := 0; qradd := 100 |};
                               {| qkeep := KAll; qadd := 2; qmodel := 1; qrep := 1; qradd := 0 |}]] |};
                 {| mcap := 1; mplace := Added; mparent := None; mnamed := true; minit := [];
                    mhandlers := []; mrepliers := [([], 10%Z); ([], 20%Z)]; mouts := []; mreqs := [] |};
                 {| mcap := 1; mplace := Added; mparent := None; mnamed := true; minit := [];
                    mhandlers := []; mrepliers := [([], 30%Z)]; mouts := []; mreqs := [] |}];
     bsinks := []; bsources := []; bclock := []; btol := None; bt0 := 0;
     bugF1 := false; bugF2 := false; bugF3 := false; bugF4 := false |}.
Fixpoint c14_lists (n : nat) : list (list nat) :=
  match n with O => [[]] | S n' => [] :: flat_map (fun l => [0 :: l; 1 :: l; 2 :: l]) (c14_lists n') end.
Definition c14_replies (v : Z) (ch : list nat) : list (list Z) :=
  flat_map (fun o => flat_map (fun e => match e with EReplies _ rs => [rs] | _ => [] end) (olog o))
           (sim_exec c14_bench 600 [] [(CProcEvent 0 0 v, ch)]).
Example c14_nonvacuous :
  forallb (fun ch => match c14_replies 4 ch, c14_replies 5 ch with
                     | [[14; 135; 26]], [[15; 27]] => true | _, _ => false end%Z) (c14_lists 3) = true.
Proof. vm_compute. reflexivity. Qed.


(* ------------------------------------------------------------------------------------------
   The broadcast of one query (model of ports/output/broadcaster.rs, Model/Broadcast.v): for
   every number of repliers, every sequence of queries with arbitrary filters, every order of
   completions, failures and spurious wake-ups - between the polls of the broadcast future and
   inside the polls of other sub-futures - and every amount of the reply iterator the caller
   consumes: a broadcast that returns Ok yields exactly the replies of the accepting repliers of
   THIS query, in connection order (the first m of them when the caller takes m).  No stale reply
   of an earlier query, none missing, none from a filtered-out replier. *)
Require Import NX.Model.Broadcast NX.Proofs.BroadcastProofs.

Theorem c14_broadcast_replies :
  forall n ops subs vs f,
    ~ In BRFuel (b_run (b_init n) (ops ++ [BOPoll])) ->
    last (b_run (b_init n) (ops ++ [BOPoll])) BRD = BRPoll subs BOk vs ->
    fut (b_exec (b_init n) ops) = Some f ->
    vs = expected (b_exec (b_init n) ops) (consume_of f).
Proof. exact b_run_replies. Qed.
Print Assumptions c14_broadcast_replies.

(* the invariant behind it (slots hold the matching replies, the pending counter is exact) is kept
   by every operation *)
Theorem c14_broadcast_invariant :
  forall s o s' r, BInv s -> b_step s o = (s', r) -> r <> BRFuel -> BInv s'.
Proof. exact b_step_inv. Qed.
Print Assumptions c14_broadcast_invariant.

(* "it returns only after all of them have replied" and no lost wake-up: a Pending multi-replier
   broadcast leaves the parent armed (waker registered, countdown one, nothing scheduled) ... *)
Theorem c14_broadcast_pending_armed :
  forall s s' subs acc st pend m,
    BInv s -> b_poll s = (s', BRPoll subs BPend []) -> fut s' = Some (FMulti acc st pend m) -> armed s'.
Proof. exact b_poll_pending_armed. Qed.
Print Assumptions c14_broadcast_pending_armed.

(* ... so that the next wake-up of any sub-future notifies the parent exactly once and is
   recorded in the scheduled list (it will be polled by the next poll of the broadcast) *)
Theorem c14_broadcast_wake_notifies :
  forall s p, armed s ->
    notifs (ts_wake s p) = S (notifs s) /\ sched (ts (ts_wake s p)) = [p] /\ registered (ts_wake s p) = false.
Proof. exact armed_wake_notifies. Qed.
Print Assumptions c14_broadcast_wake_notifies.

Theorem c14_broadcast_wake_recorded :
  forall s p, In p (sched (ts (ts_wake s p))) \/ In p (iter (ts (ts_wake s p))).
Proof. exact wake_is_recorded. Qed.
Print Assumptions c14_broadcast_wake_recorded.

(* non-vacuity: three repliers, the middle one filtered out of the second query whose replies are
   only partly consumed; completions arrive inside another sub-future's poll and between polls *)
Example c14_broadcast_nonvacuous :
  b_run (b_init 3)
    [BOQuery [true; true; true] None; BOScript 0 0 [BComplete 2]; BOPoll; BONotifs; BOAct (BComplete 0); BONotifs; BOPoll;
     BOAct (BComplete 1); BONotifs; BOPoll;
     BOQuery [true; false; true] (Some 1); BOPoll; BOAct (BComplete 2); BOAct (BComplete 0); BOPoll;
     BOQuery [true; true; true] None; BOAct (BComplete 0); BOAct (BComplete 1); BOAct (BComplete 2); BOPoll]
  = [BRQ; BRS; BRPoll [0; 1; 2] BPend []; BRN 0; BRDash; BRN 1; BRPoll [0] BPend [];
     BRDash; BRN 1; BRPoll [1] BOk [1000; 1001; 1002]%Z;
     BRQ; BRPoll [0; 2] BPend []; BRDash; BRDash; BRPoll [0; 2] BOk [2000]%Z;
     BRQ; BRDash; BRDash; BRDash; BRPoll [0; 1; 2] BOk [3000; 3001; 3002]%Z].
Proof. vm_compute. reflexivity. Qed.

(* ------------------------------------------------------------------------------------------
   The lock-free task set itself (model of util/task_set.rs at the granularity of single shared
   accesses: any number of wakers, the owner taking / iterating / dropping, spurious failures of
   compare_exchange_weak; sequentially consistent interleavings): the invariant holds in every
   reachable state ... *)
Require Import NX.Model.TaskSetConc NX.Proofs.TaskSetConcProofs.

Theorem c14_taskset_invariant :
  forall n ws ls, (forall i, In i ws -> i < n) -> TInv (tk_run (tk_init n ws) ls).
Proof. exact tk_reachable_inv. Qed.
Print Assumptions c14_taskset_invariant.

Theorem c14_taskset_step : forall s l s', TInv s -> tk_step s l = Some s' -> TInv s'.
Proof. exact tk_step_inv. Qed.
Print Assumptions c14_taskset_step.

(* ... the lists are never corrupted: the iterator never meets SLEEPING (an out-of-bounds index
   in the code) ... *)
Theorem c14_taskset_no_panic : forall s, TInv s -> tpanic s = 0.
Proof. exact ts_no_panic. Qed.
Print Assumptions c14_taskset_no_panic.

(* ... and no completed wake-up is lost: the task is in the scheduled list, in the part of the
   taken list the iterator has not reached yet, or claimed by a waker about to link it in; once
   no waker is in flight and the owner is idle it is in the scheduled list, so the next
   take_scheduled returns it *)
Theorem c14_taskset_no_lost_wake :
  forall s i, TInv s -> nth i (woken s) false = true ->
    exists lh li, chain (tnext s) (snd (thead s)) lh /\ chain (tnext s) (citer (cph s)) li /\
      (In i (lh ++ li) \/ exists j w, nth_error (tkwakers s) j = Some w /\ claimed w /\ kti w = i).
Proof. exact ts_no_lost_wake. Qed.
Print Assumptions c14_taskset_no_lost_wake.

Theorem c14_taskset_quiescent_woken_is_scheduled :
  forall s i, TInv s -> cph s = CIdle -> (forall j w, nth_error (tkwakers s) j = Some w -> ~ claimed w) ->
    nth i (woken s) false = true -> exists lh, chain (tnext s) (snd (thead s)) lh /\ In i lh.
Proof. exact ts_quiescent_woken_scheduled. Qed.
Print Assumptions c14_taskset_quiescent_woken_is_scheduled.

(* the countdown law: only take_scheduled sets the countdown, only a successful push decrements
   it, and the push that takes it from one to zero calls notify() once - so after the owner has
   been told that nothing is scheduled (take_scheduled(1) = None) the very next wake-up that gets
   linked in notifies it *)
Require Import NX.Proofs.TaskSetNotify.
Theorem c14_taskset_countdown :
  forall s l s', tk_step s l = Some s' ->
    (fst (thead s') = fst (thead s) /\ tnotif s' = tnotif s) \/
    (exists j w, l = LStep (S j) false /\ nth_error (tkwakers s) j = Some w /\ kpc w = 4 /\ thead s = khd w /\
       fst (thead s') = fst (thead s) - 1 /\ snd (thead s') = Some (kti w) /\
       tnotif s' = tnotif s + (if Nat.eqb (fst (thead s)) 1 then 1 else 0)) \/
    (exists k hd, cph s = CTake k (Some hd) /\ thead s = hd /\ tnotif s' = tnotif s /\
       thead s' = match snd hd with None => (k, None) | Some _ => (0, None) end).
Proof. exact tk_step_countdown. Qed.
Print Assumptions c14_taskset_countdown.

Theorem c14_taskset_armed_push_notifies :
  forall s j w s',
    fst (thead s) = 1 -> nth_error (tkwakers s) j = Some w -> kpc w = 4 -> thead s = khd w ->
    tk_step s (LStep (S j) false) = Some s' ->
    tnotif s' = S (tnotif s) /\ fst (thead s') = 0 /\ snd (thead s') = Some (kti w).
Proof. exact tk_armed_push_notifies. Qed.
Print Assumptions c14_taskset_armed_push_notifies.
