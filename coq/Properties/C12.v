(* C12 — Mailbox = bounded, lossless MPSC FIFO.  Sequential part proved in
   full; the concurrent part is partial (see MANIFEST level note). *)
Require Import NX.Base.Prelude NX.Base.ListX NX.Model.Queue NX.Proofs.QueueProofs.

(* For every capacity >= 1 and every sequence of push / pop / pop-and-hold /
   release / close / len / is_closed, the stamped ring buffer of queue.rs
   answers exactly like a bounded FIFO with one borrowable slot: pushes are
   refused (Full) exactly when capacity messages are outstanding (queued or
   borrowed), refused (Closed) after close; pops return the messages in push
   order, each once; Closed is reported only when the queue is closed AND
   drained; len is the number of queued messages. *)
Theorem c12_seq_refines :
  forall (V : Type) (cap : nat) (ops : list (qop V)),
    cap >= 1 -> q_run (queue_new cap) ops = fifo_run (fifo_new cap) ops.
Proof. exact queue_refines. Qed.
Print Assumptions c12_seq_refines.

(* the representation invariant is kept by every operation from every state
   that satisfies it (not only from the initial one) *)
Theorem c12_seq_step :
  forall (V : Type) (q : queue V) (f : fifo V) (o : qop V),
    QI V q f -> snd (q_step q o) = snd (fifo_step f o) /\ QI V (fst (q_step q o)) (fst (fifo_step f o)).
Proof. exact step_refines. Qed.
Print Assumptions c12_seq_step.

Example c12_nonvacuous :
  q_run (queue_new 2) [QPush 1; QPush 2; QPush 3; QLen; QPop; QLen; QPopHold; QPush 3; QPush 4; QRelease;
                       QPush 4; QPop; QPop; QPop; QClose; QPush 9; QPop; QIsClosed]%Z
  = [QRPush PushOk; QRPush PushOk; QRPush PushFull; QRLen 2; QRPop (PopVal 1); QRLen 1; QRPop (PopVal 2);
     QRPush PushOk; QRPush PushFull; QRRel true; QRPush PushOk; QRPop (PopVal 3); QRPop (PopVal 4);
     QRPop PopEmpty; QRUnit; QRPush PushClosed; QRPop PopClosed; QRBool true]%Z.
Proof. vm_compute. reflexivity. Qed.
