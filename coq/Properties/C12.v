(* C12 — Mailbox = bounded, lossless MPSC FIFO.
   Part 1: operation sequences (one operation at a time): the stamped ring buffer refines a
   bounded FIFO (Model/Queue.v).  Part 2: any number of producers, the consumer and a closer
   interleaved at the granularity of single shared-memory accesses (Model/QueueConc.v). *)
Require Import NX.Base.Prelude NX.Base.ListX NX.Model.Queue NX.Proofs.QueueProofs.
Require Import NX.Model.QueueConc NX.Proofs.QueueConcInv NX.Proofs.QueueConcSteps NX.Proofs.QueueConcProofs.

(* For every capacity >= 1 and every sequence of push / pop / pop-and-hold /
   release / close / len / is_closed, the stamped ring buffer of queue.rs
   answers exactly like a bounded FIFO with one borrowable slot: pushes are
   refused (Full) exactly when capacity messages are outstanding (queued or
   borrowed), refused (Closed) after close; pops return the messages in push
   order, each once; Closed is reported only when the queue is closed AND
   drained; len is the number of queued messages. *)
Theorem c12_seq_refines :
  forall (V : Type) (cap : nat) (ops : list (qop V)),
    cap >= 1 -> q_run (queue_new cap) ops = fifo_run (fifo_new cap) ops.
Proof. exact queue_refines. Qed.
Print Assumptions c12_seq_refines.

(* the representation invariant is kept by every operation from every state
   that satisfies it (not only from the initial one) *)
Theorem c12_seq_step :
  forall (V : Type) (q : queue V) (f : fifo V) (o : qop V),
    QI V q f -> snd (q_step q o) = snd (fifo_step f o) /\ QI V (fst (q_step q o)) (fst (fifo_step f o)).
Proof. exact step_refines. Qed.
Print Assumptions c12_seq_step.

Example c12_nonvacuous :
  q_run (queue_new 2) [QPush 1; QPush 2; QPush 3; QLen; QPop; QLen; QPopHold; QPush 3; QPush 4; QRelease;
                       QPush 4; QPop; QPop; QPop; QClose; QPush 9; QPop; QIsClosed]%Z
  = [QRPush PushOk; QRPush PushOk; QRPush PushFull; QRLen 2; QRPop (PopVal 1); QRLen 1; QRPop (PopVal 2);
     QRPush PushOk; QRPush PushFull; QRRel true; QRPush PushOk; QRPop (PopVal 3); QRPop (PopVal 4);
     QRPop PopEmpty; QRUnit; QRPush PushClosed; QRPop PopClosed; QRBool true]%Z.
Proof. vm_compute. reflexivity. Qed.


(* ------------------------------------------------------------------------------------------
   Part 2 - concurrent.  For every capacity >= 1, any number of producers with any lists of
   messages, any number of pop attempts, a close() at any moment, every interleaving of the
   individual atomic accesses and every spurious failure of compare_exchange_weak: the invariant
   CInv holds in every reachable state. *)
Theorem c12_conc_invariant :
  forall (V : Type) capacity (pv : list (list V)) npops sched,
    1 <= capacity -> CInv V (cq_run (cq_init capacity pv npops) sched).
Proof. exact cq_reachable_inv. Qed.
Print Assumptions c12_conc_invariant.

Theorem c12_conc_step :
  forall (V : Type) (s s' : cstate V) t b, CInv V s -> cq_step s t b = Some s' -> CInv V s'.
Proof. exact cq_step_inv. Qed.
Print Assumptions c12_conc_step.

(* lossless FIFO, exactly once: what the consumer has received is a prefix of the accepted
   messages in the order of acceptance (the order of the successful compare-exchanges) *)
Theorem c12_conc_fifo :
  forall (V : Type) (s : cstate V), CInv V s -> exists k, k <= length (log s) /\ popped s = firstn k (log s).
Proof. exact cq_fifo. Qed.
Print Assumptions c12_conc_fifo.

(* bounded: accepted and not yet handed back <= capacity *)
Theorem c12_conc_bounded :
  forall (V : Type) (s : cstate V), CInv V s -> enq s - rel V s <= cap s /\ rel V s <= deq s <= enq s.
Proof. exact cq_bounded. Qed.
Print Assumptions c12_conc_bounded.

(* per producer: its accepted messages occupy strictly increasing positions of the log, i.e. they
   are delivered in the order in which it sent them *)
Theorem c12_conc_producer_order :
  forall (V : Type) (s : cstate V) i p,
    CInv V s -> nth_error (prods s) i = Some p ->
    sdesc (map fst (ptix p)) /\ forall n v, In (n, v) (ptix p) -> nth_error (log s) n = Some v.
Proof. exact cq_producer_order. Qed.
Print Assumptions c12_conc_producer_order.

(* the unreachable!() arms and the debug assertion of queue.rs are never reached: no two parties
   ever access the same cell at once *)
Theorem c12_conc_no_unreachable : forall (V : Type) (s : cstate V), CInv V s -> cerr s = 0.
Proof. exact cq_no_unreachable. Qed.
Print Assumptions c12_conc_no_unreachable.

(* len() = number of messages held, whenever no operation is in flight *)
Theorem c12_conc_len :
  forall (V : Type) (s : cstate V),
    CInv V s -> quiescent s -> cq_len s = length (log s) - length (popped s) /\ cq_len s <= cap s.
Proof. exact cq_len_quiescent. Qed.
Print Assumptions c12_conc_len.

(* after close() no message is accepted any more ... *)
Theorem c12_conc_closed_no_accept :
  forall (V : Type) (s s' : cstate V) t b,
    closed s = true -> cq_step s t b = Some s' -> log s' = log s /\ closed s' = true.
Proof. exact cq_closed_no_accept. Qed.
Print Assumptions c12_conc_closed_no_accept.

(* ... while the messages already accepted remain receivable: Closed is reported to the consumer
   only when every accepted message has been delivered *)
Theorem c12_conc_closed_only_when_drained :
  forall (V : Type) (s s' : cstate V),
    CInv V s -> cons_step s = Some s' -> cout (con s') = CrClosed :: cout (con s) ->
    closed s = true /\ popped s = log s.
Proof. exact cq_closed_only_when_drained. Qed.
Print Assumptions c12_conc_closed_only_when_drained.

(* non-vacuity: two producers race for a queue of capacity 2 (one compare-exchange fails
   spuriously), one push is refused (Full), close() arrives, the consumer drains and is told Closed *)
Definition c12_sched : list (nat * bool) :=
  [(2, false); (3, false); (2, false); (3, false); (2, true); (3, false); (3, false); (3, false); (2, false);
   (2, false); (2, false); (2, false); (0, false); (0, false); (0, false); (0, false); (2, false); (2, false);
   (2, false); (2, false); (1, false); (0, false); (0, false); (2, false); (2, false); (0, false); (0, false);
   (0, false); (0, false); (0, false); (0, false); (0, false); (0, false); (0, false); (0, false); (0, false)].
Example c12_conc_nonvacuous :
  let s := cq_run (cq_init 2 [[1; 2; 3]; [7]]%Z 4) c12_sched in
  (log s, popped s, map (fun p => rev (pout p)) (prods s), rev (cout (con s)), cerr s) =
  ([7; 1]%Z, [7; 1]%Z, [[PrOk; PrFull]; [PrOk]], [CrVal 7; CrVal 1; CrClosed]%Z, 0).
Proof. vm_compute. reflexivity. Qed.


(* ------------------------------------------------------------------------------------------
   Part 3 - "a sender waiting for space and the receiver waiting for a message are always resumed
   once the condition they wait for becomes true": the parking protocol of channel.rs
   (Model/Chan.v: senders parked on an async_event::Event, the receiver on a DiatomicWaker, one
   shared access per step, any number of senders, any capacity), for the programs GENERATED from the
   current channel.rs (translator T4) and every interleaving: a parked sender that nobody is going
   to wake faces a full mailbox, the parked receiver that nobody is going to wake faces an empty one. *)
Require Import NX.Model.Chan NX.gen.ChanProg NX.Proofs.ChanInv NX.Proofs.ChanProofs NX.Proofs.ChanGen.

Theorem c12_chan_source_is_proved_program : chan_gen = chan_fixed.
Proof. exact chan_gen_is_proved. Qed.
Print Assumptions c12_chan_source_is_proved_program.

Theorem c12_waiting_sender_is_resumed :
  forall c n ls x,
    let s := c_run chan_gen (c_init c n) ls in
    senders_settled s -> rpend s = false -> spc_ (S_ s x) = SSleep -> cocc s = ccap s.
Proof. exact chan_gen_sender_sleeps_only_when_full. Qed.
Print Assumptions c12_waiting_sender_is_resumed.

Theorem c12_waiting_receiver_is_resumed :
  forall c n ls,
    let s := c_run chan_gen (c_init c n) ls in
    rpc_ s = RSleep -> rwk s = false ->
    (forall x, will_notify_recv (spc_ (S_ s x)) = false) -> cavail s = 0.
Proof. exact chan_gen_receiver_sleeps_only_when_empty. Qed.
Print Assumptions c12_waiting_receiver_is_resumed.

Theorem c12_chan_never_above_capacity :
  forall c n ls, let s := c_run chan_gen (c_init c n) ls in cavail s <= cocc s /\ cocc s <= ccap s.
Proof. exact chan_gen_bounded. Qed.
Print Assumptions c12_chan_never_above_capacity.
