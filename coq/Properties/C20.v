(* C20 — Priority queues: stable minimum extraction and non-aliasing keys.
   This file holds only statements; proofs live in Proofs/. *)
Require Import NX.Base.Prelude NX.Model.PQ NX.Proofs.PQProofs.

(* The scheduler's queue (model of util/priority_queue.rs), from empty, under
   every sequence of insert/pull/peek, answers exactly like the specification
   "list in insertion order; pull/peek select the FIRST entry among those
   with the least key". *)
Theorem c20_pq_min_stable :
  forall (V : Type) (ops : list (pq_op V)),
    pq_run pq_empty ops = spec_run [] ops.
Proof. exact pq_refines. Qed.
Print Assumptions c20_pq_min_stable.

(* What the specification's pull returns, stated without the scanning
   function: an entry x at position i such that every entry has a key >= x's
   and every entry before i has a key > x's (so x is the earliest inserted
   among the minimal ones); the remaining entries keep their order. *)
Theorem c20_pq_spec_meaning :
  forall (V : Type) (s : list (key * V)) x s',
    spec_pull s = (Some x, s') ->
    exists i, nth_error s i = Some x /\ s' = remove_nth i s /\
      (forall j y, nth_error s j = Some y -> key_le (fst x) (fst y)) /\
      (forall j y, (j < i)%nat -> nth_error s j = Some y -> key_lt (fst x) (fst y)).
Proof. exact spec_pull_char. Qed.
Print Assumptions c20_pq_spec_meaning.

Theorem c20_pq_spec_none :
  forall (V : Type) (s s' : list (key * V)), spec_pull s = (None, s') -> s = [] /\ s' = [].
Proof. exact spec_pull_none. Qed.
Print Assumptions c20_pq_spec_none.

(* non-vacuity: a concrete run with equal keys and interleaved pulls *)
Example c20_pq_nonvacuous :
  pq_run pq_empty
    [PInsert (5, 0%N) 1; PInsert (3, 1%N) 2; PInsert (3, 1%N) 3; PInsert (3, 0%N) 4;
     PPeek; PPull; PPull; PInsert (3, 1%N) 5; PPull; PPull; PPull; PPull]%Z
  = [RUnit; RUnit; RUnit; RUnit; RSome (3, 0%N) 4; RSome (3, 0%N) 4; RSome (3, 1%N) 2;
     RUnit; RSome (3, 1%N) 3; RSome (3, 1%N) 5; RSome (5, 0%N) 1; RNone]%Z.
Proof. vm_compute. reflexivity. Qed.
