(* C20 — Priority queues: stable minimum extraction and non-aliasing keys.
   This file holds only statements; proofs live in Proofs/. *)
Require Import NX.Base.Prelude NX.Model.PQ NX.Proofs.PQProofs.
Require Import NX.Model.IPQ NX.Model.IPQSpec NX.Proofs.IPQRefine NX.Proofs.IPQSpecProofs.

(* The scheduler's queue (model of util/priority_queue.rs), from empty, under
   every sequence of insert/pull/peek, answers exactly like the specification
   "list in insertion order; pull/peek select the FIRST entry among those
   with the least key". *)
Theorem c20_pq_min_stable :
  forall (V : Type) (ops : list (pq_op V)),
    pq_run pq_empty ops = spec_run [] ops.
Proof. exact pq_refines. Qed.
Print Assumptions c20_pq_min_stable.

(* What the specification's pull returns, stated without the scanning
   function: an entry x at position i such that every entry has a key >= x's
   and every entry before i has a key > x's (so x is the earliest inserted
   among the minimal ones); the remaining entries keep their order. *)
Theorem c20_pq_spec_meaning :
  forall (V : Type) (s : list (key * V)) x s',
    spec_pull s = (Some x, s') ->
    exists i, nth_error s i = Some x /\ s' = remove_nth i s /\
      (forall j y, nth_error s j = Some y -> key_le (fst x) (fst y)) /\
      (forall j y, (j < i)%nat -> nth_error s j = Some y -> key_lt (fst x) (fst y)).
Proof. exact spec_pull_char. Qed.
Print Assumptions c20_pq_spec_meaning.

Theorem c20_pq_spec_none :
  forall (V : Type) (s s' : list (key * V)), spec_pull s = (None, s') -> s = [] /\ s' = [].
Proof. exact spec_pull_none. Qed.
Print Assumptions c20_pq_spec_none.

(* non-vacuity: a concrete run with equal keys and interleaved pulls *)
Example c20_pq_nonvacuous :
  pq_run pq_empty
    [PInsert (5, 0%N) 1; PInsert (3, 1%N) 2; PInsert (3, 1%N) 3; PInsert (3, 0%N) 4;
     PPeek; PPull; PPull; PInsert (3, 1%N) 5; PPull; PPull; PPull; PPull]%Z
  = [RUnit; RUnit; RUnit; RUnit; RSome (3, 0%N) 4; RSome (3, 0%N) 4; RSome (3, 1%N) 2;
     RUnit; RSome (3, 1%N) 3; RSome (3, 1%N) 5; RSome (5, 0%N) 1; RNone]%Z.
Proof. vm_compute. reflexivity. Qed.


(* ------------------------------------------------------------------------------------------
   The keyed variant (model of util/indexed_priority_queue.rs: array heap cross-indexed with a
   slab, free list, epochs).  From empty, under every sequence of insert / pull / peek /
   peek_key / len / extract(key of the n-th insertion), the implementation model never fails an
   indexing operation (no IRPanic) and answers exactly like the list-with-epochs specification
   Model/IPQSpec.v. *)
Theorem c20_ipq_refines :
  forall (V : Type) (ops : list (ipq_op V)),
    ipq_run (ipq_empty, []) ops = a_run pq_empty ops.
Proof. exact ipq_refines. Qed.
Print Assumptions c20_ipq_refines.

(* the specification's answers are those of its states *)
Theorem c20_ipq_spec_answers :
  forall (V : Type) (ops : list (ipq_op V)) (a : pq V) (o : ipq_op V),
    a_run a (ops ++ [o]) = a_run a ops ++ [snd (a_step (a_exec V a ops) o)].
Proof. exact a_run_snoc. Qed.
Print Assumptions c20_ipq_spec_answers.

(* Non-aliasing keys: after any operation sequence, extraction through the key of the n-th
   insertion yields nothing (and changes nothing), or yields exactly the pair the n-th insertion
   put in and removes that entry and no other - whatever happened in between, re-use of its
   storage slot included. *)
Theorem c20_ipq_key_designates_its_entry :
  forall (V : Type) (ops : list (ipq_op V)) (n : nat) (r : option (key * V)) (a' : pq V),
    a_extract (a_exec V pq_empty ops) n = (r, a') ->
    (r = None /\ a' = a_exec V pq_empty ops /\
     forall x, In x (items (a_exec V pq_empty ops)) -> iepoch x <> N.of_nat n) \/
    (exists k v, r = Some (k, v) /\ nth_error (inserts V ops) n = Some (k, v) /\
                 (forall y, In y (items a') <-> In y (items (a_exec V pq_empty ops)) /\ iepoch y <> N.of_nat n) /\
                 next_epoch a' = next_epoch (a_exec V pq_empty ops)).
Proof. exact extract_designates_reachable. Qed.
Print Assumptions c20_ipq_key_designates_its_entry.

(* every queued entry is the one created by the insertion whose number is its epoch *)
Theorem c20_ipq_entries_origin :
  forall (V : Type) (ops : list (ipq_op V)), A V (a_exec V pq_empty ops) (inserts V ops).
Proof. exact A_reachable. Qed.
Print Assumptions c20_ipq_entries_origin.

(* pull: least key, and among equal keys the entry inserted first *)
Theorem c20_ipq_pull_least_first :
  forall (V : Type) (a : pq V) k v (a' : pq V),
    pq_pull a = (Some (k, v), a') ->
    exists m, In m (items a) /\ PQ.ikey m = k /\ ival m = v /\
      (forall y, In y (items a) -> key_le k (PQ.ikey y)) /\
      (forall y, In y (items a) -> PQ.ikey y = k -> (iepoch m <= iepoch y)%N) /\
      items a' = remove_epoch (iepoch m) (items a).
Proof. exact pull_least_first. Qed.
Print Assumptions c20_ipq_pull_least_first.

(* non-vacuity: the slot of the first entry is re-used by the third insertion; the stale key 0
   then designates nothing, key 2 designates the new entry, and equal keys come out in insertion
   order *)
Example c20_ipq_nonvacuous :
  ipq_run (ipq_empty, [])
    [IInsert (5, 0%N) 10; IInsert (3, 0%N) 11; IExtract 0; IExtract 0; IInsert (3, 0%N) 12; ILen;
     IExtract 0; IPeek; IPull; IExtract 2; IPull]%Z
  = [IRUnit; IRUnit; IRSome (5, 0%N) 10; IRNone; IRUnit; IRLen 2;
     IRNone; IRSome (3, 0%N) 11; IRSome (3, 0%N) 11; IRSome (3, 0%N) 12; IRNone]%Z.
Proof. vm_compute. reflexivity. Qed.
