(* C03 — Exactly-once delivery to every connected recipient.
   Per-mechanism statements for all inputs; the trace-level multiset equality
   is checked by the closure oracle on the implementation and by correspondence. *)
Require Import NX.Base.Prelude NX.Base.ListX NX.Model.PQ NX.Model.Sim.
Require Import NX.Proofs.SimBasic NX.Proofs.SimSched NX.Proofs.NetProofs NX.Proofs.NetTrace.

(* A send creates one delivery per connection whose filter accepts the value,
   carrying the mapped value, in connection order - and nothing else. *)
Theorem c03_deliveries_of_send :
  forall cs v, conn_deliveries cs v = map (fun c => delivery_of c v) (filter (fun c => keep_ok (ckeep c) v) cs).
Proof. exact conn_deliveries_spec. Qed.
Print Assumptions c03_deliveries_of_send.

(* A delivery to a live mailbox appends exactly that message to exactly the
   target mailbox (only when there is room: otherwise the sender stays blocked,
   nothing is dropped) and counts it. *)
Theorem c03_delivery_enqueues_once :
  forall b s t i x f m g thr sp q s',
    nth_error (tasks s) t = Some x -> tfr x = Some f ->
    nth_error (fpend f) i = Some {| dtgt := DModel m g; dthrow := thr |} ->
    nth_error (bmodels b) m = Some sp -> mplace sp <> Dropped -> nth_error (boxes s) m = Some q ->
    step_deliver b s t i = Some s' ->
    nth_error (boxes s') m = Some (q ++ [g]) /\ length q < mcap sp /\ inflight s' = (inflight s + 1)%Z.
Proof. exact deliver_appends. Qed.
Print Assumptions c03_delivery_enqueues_once.

(* The owner consumes exactly the head message of its own mailbox. *)
Theorem c03_start_consumes_once :
  forall b s t s' x m,
    step_start b s t = Some s' -> nth_error (tasks s) t = Some x -> tk x = TKModel m -> tinit x = false ->
    exists g rest, nth_error (boxes s) m = Some (g :: rest) /\ boxes s' = lupd (boxes s) m rest /\
                   inflight s' = (inflight s - 1)%Z.
Proof. exact start_pops_head. Qed.
Print Assumptions c03_start_consumes_once.

(* The sender does not move on (nor finish its handler) while a delivery of the
   current port operation is outstanding. *)
Theorem c03_send_completes_before_next_op :
  forall b s t x f d ds,
    nth_error (tasks s) t = Some x -> tfr x = Some f -> fpend f = d :: ds -> step_op b s t = None.
Proof. exact step_op_blocked. Qed.
Print Assumptions c03_send_completes_before_next_op.

(* Conservation in every reachable state: sent-and-enqueued minus consumed
   equals what the mailboxes hold; a run that returns Ok left no mailbox
   non-empty. *)
Theorem c03_conservation :
  forall b fuel ch s nd s' nd', count_ok s -> net_run b fuel ch s nd = Some (s', nd') -> count_ok s'.
Proof. exact net_run_count. Qed.
Print Assumptions c03_conservation.

Theorem c03_ok_means_all_consumed :
  forall b s, err s = None -> count_ok s ->
    (classify b s = ROk <-> forall m q, nth_error (boxes s) m = Some q -> q = []).
Proof. intros b s H1 H2. exact (proj1 (classify_meaning b s H1 H2)). Qed.
Print Assumptions c03_ok_means_all_consumed.

(* Trace level, for ANY execution (any sequence of enabled steps = any schedule,
   any number of steps) and any mailbox: its content is its initial content
   followed by the messages enqueued into it, in enqueue order, minus the prefix
   consumed by its owner.  Nothing lost, duplicated, reordered or invented; the
   owner consumes exactly the first deqs messages, in order. *)
Theorem c03_mailbox_trace :
  forall b ls s s' m q,
    net_exec b s ls = Some s' -> nth_error (boxes s) m = Some q ->
    deqs b s ls m <= length (q ++ enqs b s ls m) /\
    nth_error (boxes s') m = Some (skipn (deqs b s ls m) (q ++ enqs b s ls m)).
Proof. exact mailbox_trace. Qed.
Print Assumptions c03_mailbox_trace.

(* a run of the executor under any choice sequence is such an execution, ending
   in a state where no step is enabled *)
Theorem c03_mailbox_trace_run :
  forall b fuel ch s nd s' nd',
    net_run b fuel ch s nd = Some (s', nd') -> exists ls, net_exec b s ls = Some s' /\ net_enabled b s' = [].
Proof. exact net_run_is_exec. Qed.
Print Assumptions c03_mailbox_trace_run.

(* non-vacuity: broadcast through plain / map / filter_map connections to two
   models and a sink with a capacity-1 mailbox (the sender blocks) *)
Definition c03_bench : bench :=
  {| bmodels := [{| mcap := 2; mplace := Added; mparent := None; mnamed := true; minit := [];
                    mhandlers := [[OSend 0 EIn; OSend 0 (EInPlus 1)]]; mrepliers := [];
                    mouts := [[{| ckeep := KAll; cadd := 0; ctgt := TgtModel 1 0 |};
                               {| ckeep := KEven; cadd := 100; ctgt := TgtModel 1 0 |};
                               {| ckeep := KAll; cadd := 7; ctgt := TgtSink 0 |}]]; mreqs := [] |};
                 {| mcap := 1; mplace := Added; mparent := None; mnamed := true; minit := [];
                    mhandlers := [[]]; mrepliers := []; mouts := []; mreqs := [] |}];
     bsinks := [SpecBuf 8]; bsources := []; bclock := []; btol := None; bt0 := 0;
     bugF1 := false; bugF2 := false; bugF3 := false; bugF4 := false |}.
Example c03_nonvacuous :
  map ores (sim_exec c03_bench 500 [] [(CProcEvent 0 0 4, [3;1;4;1;5;9;2;6]); (CReadSink 0, [])])
  = [ROk; ROk; RSink [11; 12]%Z].
Proof. vm_compute. reflexivity. Qed.

(* ---- exactly once, end to end, for a whole call (Model/Conf.v, Proofs/ConfNet.v) ----
   On a plain bench (scripts of sends, queries and scheduling requests, every model added) a call of the net model that ends
   with an empty pool has picked a list L of messages - the handler / replier / init invocations it
   logged plus the sink writes it performed - which is, as a multiset, exactly the messages present at
   the start plus everything the invoked handlers sent (after each connection's map / filter):
   nothing lost, nothing duplicated, nothing invented, whatever the schedule. *)
Require Import NX.Model.Conf NX.Proofs.ConfProofs NX.Proofs.ConfNet.

Theorem c03_processed_is_exactly_what_was_sent :
  forall b fuel ch s nd s' nd',
    bench_plain b = true -> NInv s -> net_run b fuel ch s nd = Some (s', nd') -> pool_of b s' = [] ->
    exists L, Permutation L (pool_of b s ++ flat_map (bench_react b) L) /\
              invs (log s') = rev (filter cm_logged L) ++ invs (log s) /\
              sinks s' = fold_left sink_apply L (sinks s).
Proof. exact net_processed_is_sent. Qed.
Print Assumptions c03_processed_is_exactly_what_was_sent.

(* ---- the blocking protocol of the mailbox channel (Model/Chan.v) ----
   Sim.v lets a send proceed exactly when the target mailbox has room and a model start exactly when its
   mailbox holds a message.  Chan.v models what channel.rs does to achieve this (senders parked on an
   async_event::Event, the receiver on a DiatomicWaker, at one shared access per step, any number of
   senders) and proves, for the programs GENERATED from the current channel.rs and for every interleaving:
   a parked sender that nobody is going to wake faces a full mailbox, and the parked receiver that nobody
   is going to wake faces an empty one - no wake-up is lost, so no accepted message waits for ever in front
   of free room and no queued message is left unprocessed by a sleeping receiver. *)
Require Import NX.Model.Chan NX.gen.ChanProg NX.Proofs.ChanInv NX.Proofs.ChanProofs NX.Proofs.ChanGen.

Theorem c03_chan_source_is_proved_program : chan_gen = chan_fixed.
Proof. exact chan_gen_is_proved. Qed.
Print Assumptions c03_chan_source_is_proved_program.

Theorem c03_chan_sender_sleeps_only_when_full :
  forall c n ls x,
    let s := c_run chan_gen (c_init c n) ls in
    senders_settled s -> rpend s = false -> spc_ (S_ s x) = SSleep -> cocc s = ccap s.
Proof. exact chan_gen_sender_sleeps_only_when_full. Qed.
Print Assumptions c03_chan_sender_sleeps_only_when_full.

Theorem c03_chan_receiver_sleeps_only_when_empty :
  forall c n ls,
    let s := c_run chan_gen (c_init c n) ls in
    rpc_ s = RSleep -> rwk s = false ->
    (forall x, will_notify_recv (spc_ (S_ s x)) = false) -> cavail s = 0.
Proof. exact chan_gen_receiver_sleeps_only_when_empty. Qed.
Print Assumptions c03_chan_receiver_sleeps_only_when_empty.

Theorem c03_chan_bounded :
  forall c n ls, let s := c_run chan_gen (c_init c n) ls in cavail s <= cocc s /\ cocc s <= ccap s.
Proof. exact chan_gen_bounded. Qed.
Print Assumptions c03_chan_bounded.

Theorem c03_chan_invariant :
  forall c n ls, CInv (c_run chan_gen (c_init c n) ls).
Proof. intros c n ls. rewrite chan_gen_is_proved. exact (chan_run_inv c n ls). Qed.
Print Assumptions c03_chan_invariant.

(* a receiver that frees the slot without notifying a sender (the closest expressible form of "notify only
   when the queue was full") leaves a sender asleep in front of a free slot *)
Example c03_chan_no_notify_refuted :
  let s := c_run chan_no_notify (c_init 1 2) sched_lost in
  spc_ (S_ s 1) = SSleep /\ sin (S_ s 1) = true /\ swk (S_ s 1) = false /\ cocc s = 0 /\ ccap s = 1 /\ rpend s = false.
Proof. exact chan_no_notify_refuted. Qed.
