(* C15 — Simulation time reads are never torn and never go backwards.
   Part 1: under the release/acquire + relaxed + fences memory model of Model/WMem.v, for the two
   programs GENERATED from util/sync_cell.rs and time/monotonic_time.rs (gen/SyncCellProg.v).
   Part 2: under sequentially consistent interleaving (Model/SeqLock.v), the model that is run
   against the real code schedule by schedule. *)
Require Import NX.Base.Prelude NX.Base.ListX NX.Model.SeqLock NX.Proofs.SeqLockProofs.
Require Import NX.Model.WMem NX.gen.SyncCellProg NX.Proofs.WMemProofs NX.Proofs.WMemGen.

(* the generated programs are the ones the proofs are about *)
Theorem c15_wm_source_is_proved_program : wprog_gen = wprog_proved /\ rprog_gen = rprog_proved.
Proof. exact gen_is_proved. Qed.
Print Assumptions c15_wm_source_is_proved_program.

(* For any initial value, any sequence of written values, any number of readers, any schedule
   and any choice of the messages the loads read (every stale read the memory model allows):
   every result (t, v) a reader obtains was validated against the sequence number with
   timestamp t = 2j, and v is exactly the j-th value the cell has held (the initial value or a
   completed write) - never the seconds of one time and the nanoseconds of another. *)
Theorem c15_wm_not_torn :
  forall v0 vals n sched r t v,
    let s := wm_run (wm_init wprog_gen rprog_gen v0 vals n) sched in
    In r (tl (threads s)) -> In (t, v) (outs r) ->
    exists j, t = 2 * j /\ nth_error (whist s) j = Some v.
Proof. exact wm_gen_not_torn. Qed.
Print Assumptions c15_wm_not_torn.

(* The results of one reader follow the write order (outs lists the newest first), and none is
   older than what the reader's view of the sequence number already contained: a view only
   grows, by the reader's own loads and by synchronisation, so a value that was observed, or
   published to the reader, is never followed by an older one. *)
Theorem c15_wm_monotone :
  forall v0 vals n sched r,
    let s := wm_run (wm_init wprog_gen rprog_gen v0 vals n) sched in
    In r (tl (threads s)) ->
    desc (map fst (outs r)) /\ forall t v, In (t, v) (outs r) -> t <= vq (cur r).
Proof. exact wm_gen_monotone. Qed.
Print Assumptions c15_wm_monotone.

Theorem c15_wm_history :
  forall sched s, exists d, whist (wm_run s sched) = whist s ++ d.
Proof. exact wm_hist_prefix. Qed.
Print Assumptions c15_wm_history.

(* the invariant behind them holds in every reachable state of the weak-memory machine *)
Theorem c15_wm_invariant : forall sched s, WInv s -> WInv (wm_run s sched).
Proof. exact wm_run_inv. Qed.
Print Assumptions c15_wm_invariant.

(* non-vacuity, and sensitivity of the model to the orderings: the generated programs do return
   values under a racy schedule; with the Release fence after the value stores, or with a
   Relaxed first load, the same machine returns a torn time *)
Example c15_wm_nonvacuous :
  wm_outputs (wm_run (wm_init wprog_gen rprog_gen (1, 10)%Z [(2, 20); (3, 30)]%Z 1) sched_ok) = [[(1, 10); (2, 20)]%Z].
Proof. exact gen_run_example. Qed.
Example c15_wm_fence_late_refuted :
  wm_outputs (wm_run (wm_init wprog_fence_late rprog_proved (1, 10)%Z [(2, 20)%Z] 1) sched_torn) = [[(2, 10)%Z]].
Proof. exact fence_late_torn. Qed.
Example c15_wm_first_load_relaxed_refuted :
  wm_outputs (wm_run (wm_init wprog_proved rprog_first_load_relaxed (1, 10)%Z [(2, 20)%Z] 1) sched_stale) = [[(1, 20)%Z]].
Proof. exact first_load_relaxed_torn. Qed.

(* ---------------- Part 2: sequentially consistent interleavings ---------------- *)

(* For any initial value, any sequence of written values, any number of
   readers and any schedule: every value a reader returns is exactly one of
   the values the cell has held (initial value or a completed write, at
   history index j) - never the seconds of one and the nanoseconds of another. *)
Theorem c15_sc_not_torn :
  forall v0 vals n sched r j v,
    let s := sl_run (sl_init v0 vals n) sched in
    In r (readers s) -> In (j, v) (rout r) -> nth_error (hist s) j = Some v.
Proof. exact sl_not_torn. Qed.
Print Assumptions c15_sc_not_torn.

(* the values a reader returns follow the write order (history indices of
   successive reads never decrease; rout lists the newest first) *)
Theorem c15_sc_monotone :
  forall v0 vals n sched r,
    let s := sl_run (sl_init v0 vals n) sched in
    In r (readers s) -> sorted_desc (map fst (rout r)).
Proof. exact sl_monotone. Qed.
Print Assumptions c15_sc_monotone.

(* the history is the initial value followed by the completed writes, in order *)
Theorem c15_history :
  forall sched s, exists done, hist (sl_run s sched) = hist s ++ done.
Proof. exact hist_prefix. Qed.
Print Assumptions c15_history.

(* the invariant behind both: holds in every reachable state *)
Theorem c15_invariant :
  forall sched s, sl_inv s -> sl_inv (sl_run s sched).
Proof. exact sl_run_inv. Qed.
Print Assumptions c15_invariant.

Definition c15_sched : list nat :=
  [1; 0; 0; 1; 2; 0; 1; 0; 1; 1; 0; 0; 2; 2; 2; 2; 2; 1; 1; 1; 2; 0; 1; 2; 0; 1; 2; 0; 1; 2; 0; 2; 0; 0].
Example c15_nonvacuous :
  sl_outputs (sl_run (sl_init (1, 10)%Z [(2, 20); (3, 30)]%Z 2) c15_sched) = [[]; [(2, 20)%Z]].
Proof. vm_compute. reflexivity. Qed.
