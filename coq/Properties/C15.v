(* C15 — Simulation time reads are never torn and never go backwards.
   Proved under sequentially consistent interleaving at atomic-operation
   granularity; the weak-memory (C11) part is NOT proved: see MANIFEST. *)
Require Import NX.Base.Prelude NX.Base.ListX NX.Model.SeqLock NX.Proofs.SeqLockProofs.

(* For any initial value, any sequence of written values, any number of
   readers and any schedule: every value a reader returns is exactly one of
   the values the cell has held (initial value or a completed write, at
   history index j) - never the seconds of one and the nanoseconds of another. *)
Theorem c15_sc_not_torn :
  forall v0 vals n sched r j v,
    let s := sl_run (sl_init v0 vals n) sched in
    In r (readers s) -> In (j, v) (rout r) -> nth_error (hist s) j = Some v.
Proof. exact sl_not_torn. Qed.
Print Assumptions c15_sc_not_torn.

(* the values a reader returns follow the write order (history indices of
   successive reads never decrease; rout lists the newest first) *)
Theorem c15_sc_monotone :
  forall v0 vals n sched r,
    let s := sl_run (sl_init v0 vals n) sched in
    In r (readers s) -> sorted_desc (map fst (rout r)).
Proof. exact sl_monotone. Qed.
Print Assumptions c15_sc_monotone.

(* the history is the initial value followed by the completed writes, in order *)
Theorem c15_history :
  forall sched s, exists done, hist (sl_run s sched) = hist s ++ done.
Proof. exact hist_prefix. Qed.
Print Assumptions c15_history.

(* the invariant behind both: holds in every reachable state *)
Theorem c15_invariant :
  forall sched s, sl_inv s -> sl_inv (sl_run s sched).
Proof. exact sl_run_inv. Qed.
Print Assumptions c15_invariant.

Definition c15_sched : list nat :=
  [1; 0; 0; 1; 2; 0; 1; 0; 1; 1; 0; 0; 2; 2; 2; 2; 2; 1; 1; 1; 2; 0; 1; 2; 0; 1; 2; 0; 1; 2; 0; 2; 0; 0].
Example c15_nonvacuous :
  sl_outputs (sl_run (sl_init (1, 10)%Z [(2, 20); (3, 30)]%Z 2) c15_sched) = [[]; [(2, 20)%Z]].
Proof. vm_compute. reflexivity. Qed.
