(* C01 — Chronological execution.  Statements only (proofs in Proofs/Sim*.v).
   Model: Model/Sim.v with the bug switches off (the repaired tree). *)
Require Import NX.Base.Prelude NX.Base.ListX NX.Model.PQ NX.Model.Sim.
Require Import NX.Proofs.SimBasic NX.Proofs.SimDriver NX.Proofs.SimQueue NX.Proofs.SimTop NX.Proofs.SimTerm.

(* One command, any bench, any schedule (choice list), any reachable state that
   satisfies the queue invariant: the invariant "every pending action is due
   strictly after the current time (and has a positive period)" is kept, the
   time does not decrease, only step/step_until may change it, and a successful
   step_until(d) ends exactly at its target. *)
Theorem c01_command :
  forall b fuel s c ch s' r nd,
    bugF4 b = false -> q_inv s ->
    exec_cmd b fuel s c ch = (s', r, nd) -> r <> RHang ->
    q_inv s' /\ (now s <= now s')%Z /\
    (match c with CStep | CStepUntil _ => True | _ => now s' = now s end) /\
    (forall d, c = CStepUntil d -> r = ROk -> now s' = dl_time d (now s)).
Proof. exact exec_cmd_inv. Qed.
Print Assumptions c01_command.

(* Initialisation establishes the invariant at the start time. *)
Theorem c01_init :
  forall b fuel ich s r nd, sim_init b fuel ich = (s, r, nd) -> q_inv s /\ now s = bt0 b.
Proof. exact init_inv. Qed.
Print Assumptions c01_init.

(* Whole driver sequences: in every state reached, all pending actions lie in
   the future, and the times after successive commands never decrease. *)
Theorem c01_time_monotone_pending_future :
  forall b fuel cs s,
    bugF4 b = false -> q_inv s ->
    (forall p, In p (states_of b fuel s cs) -> snd p <> RHang) ->
    (forall p, In p (states_of b fuel s cs) -> q_inv (fst p)) /\
    nondecreasing (now s) (map (fun p => now (fst p)) (states_of b fuel s cs)).
Proof. exact states_inv. Qed.
Print Assumptions c01_time_monotone_pending_future.

(* states_of is the state sequence behind the observations of exec_cmds *)
Theorem c01_states_are_observed :
  forall b fuel cs s,
    map (fun o => (ores o, otime o)) (exec_cmds b fuel s cs) =
    map (fun p => (snd p, now (fst p))) (states_of b fuel s cs).
Proof. exact exec_cmds_states. Qed.
Print Assumptions c01_states_are_observed.

(* A bounded step moves to a time T that was the deadline of a pending,
   non-cancelled action, strictly later than before and within the bound; it
   leaves nothing pending at or before T. *)
Theorem c01_step :
  forall b fuel ch s bound s' r t nd,
    q_inv s -> step_bounded b fuel ch s bound = (s', r, t, nd) -> r <> RHang ->
    q_inv s' /\ (now s <= now s')%Z /\
    (forall x, t = Some x -> now s' = x /\ (now s < x)%Z /\ le_bound x bound = true) /\
    (t = None -> r = ROk -> now s' = now s).
Proof. exact step_bounded_inv. Qed.
Print Assumptions c01_step.

(* Every handler-level log entry of a run carries the time of that run: the
   steps of a run never write the time (frame). *)
Theorem c01_run_keeps_time :
  forall b fuel ch s nd s' nd', net_run b fuel ch s nd = Some (s', nd') -> frame_eq s s'.
Proof. exact net_run_frame. Qed.
Print Assumptions c01_run_keeps_time.

(* Unconditional form, from SimInit::init on, for every bench, every driver
   sequence and every schedule: init and every command return (no RHang), every
   state reached satisfies both queue invariants (all pending actions strictly
   in the future, positive periods, unique epochs), and the times never decrease. *)
Theorem c01_all_reachable_states :
  forall b fuel ich cs s0 r0 nd0,
    bugF4 b = false -> sim_init b fuel ich = (s0, r0, nd0) ->
    r0 <> RHang /\ q_inv s0 /\ qwf s0 /\ now s0 = bt0 b /\
    (forall p, In p (states_of b fuel s0 cs) -> q_inv (fst p) /\ qwf (fst p) /\ snd p <> RHang) /\
    nondecreasing (bt0 b) (map (fun p => now (fst p)) (states_of b fuel s0 cs)).
Proof. exact sim_all. Qed.
Print Assumptions c01_all_reachable_states.

(* non-vacuity: a bench with a self-scheduling model, a periodic event and a
   cancelled one, driven by step / step_until *)
Definition c01_bench : bench :=
  {| bmodels := [{| mcap := 4; mplace := Added; mparent := None; mnamed := true; minit := [];
                    mhandlers := [[]; [OSched (DRel 3) 0 (EInPlus 100) None None]];
                    mrepliers := []; mouts := []; mreqs := [] |}];
     bsinks := []; bsources := []; bclock := []; btol := None; bt0 := 0;
     bugF1 := false; bugF2 := false; bugF3 := false; bugF4 := false |}.
Example c01_nonvacuous :
  map (fun o => (ores o, otime o))
      (sim_exec c01_bench 500 []
         [(CSchedEvent (DAbs 10) 0 1 7 None None, []); (CSchedEvent (DAbs 20) 0 0 8 (Some 0) (Some 10%Z), []);
          (CStep, []); (CStep, []); (CCancel 0, []); (CStepUntil (DAbs 45), []); (CStep, [])])
  = [(ROk, 0); (RSched 0, 0); (RSched 0, 0); (ROk, 10); (ROk, 13); (ROk, 13); (ROk, 45); (ROk, 45)]%Z.
Proof. vm_compute. reflexivity. Qed.
