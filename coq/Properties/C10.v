(* C10 — Periodic actions fire exactly at t0 + k*period.
   Component statements (all inputs) + concrete partition-independence instance;
   the end-to-end trace statement is checked by correspondence and the direct
   oracle: see MANIFEST level note. *)
Require Import NX.Base.Prelude NX.Base.ListX NX.Model.PQ NX.Model.Sim.
Require Import NX.Proofs.SimBasic NX.Proofs.SimDriver NX.Proofs.SimQueue NX.Proofs.SimTop NX.Proofs.SimSched NX.Proofs.SimTerm NX.Proofs.SimComplete.

(* The next occurrence is keyed by the PULLED key's time plus the period - never
   by the clock or the current time - with the same origin and the same action
   (same key flag, same period): no drift. *)
Theorem c10_reinsert :
  forall q k a q1 p,
    pq_pull q = (Some (k, a), q1) -> aperiod a = Some p ->
    pull_next q = Some (k, a, pq_insert q1 ((fst k + p)%Z, snd k) a).
Proof. exact pull_next_periodic. Qed.
Print Assumptions c10_reinsert.

Theorem c10_progression_arith :
  forall n t p, iter_add n t p = (t + Z.of_nat n * p)%Z.
Proof. exact iter_add_closed. Qed.
Print Assumptions c10_progression_arith.

(* No skipped occurrence: whatever mix of step / step_until advances the time,
   after every command that returns nothing is pending at or before the current
   time, and periods in the queue are positive (so occurrences are distinct). *)
Theorem c10_nothing_due_left :
  forall b fuel s c ch s' r nd,
    bugF4 b = false -> q_inv s ->
    exec_cmd b fuel s c ch = (s', r, nd) -> r <> RHang ->
    q_inv s' /\ (now s <= now s')%Z /\
    (match c with CStep | CStepUntil _ => True | _ => now s' = now s end) /\
    (forall d, c = CStepUntil d -> r = ROk -> now s' = dl_time d (now s)).
Proof. exact exec_cmd_inv. Qed.
Print Assumptions c10_nothing_due_left.

(* No doubled occurrence, nothing fired that is not due: every spawned action
   was pulled live from the head of the queue. *)
Theorem c10_only_live_heads_fire :
  forall fuel s q bound cur group groups q' gs,
    crit fuel s q bound cur group groups = Some (q', gs) ->
    (exists a0, pq_peek q = Some (cur, a0) /\ live s a0) ->
    forall o, In o (concat gs) ->
      In o (concat groups) \/ In o group \/ exists a, o = aop a /\ live s a.
Proof. exact crit_live. Qed.
Print Assumptions c10_only_live_heads_fire.

(* No skipped occurrence: an entry leaves the queue during a step only cancelled
   or fired; with c10_nothing_due_left every live occurrence due at the step's
   time is fired in that step. *)
Theorem c10_no_skipped_occurrence :
  forall fuel s q bound cur group groups q' gs,
    pq_wf q -> q_from q (fst cur) -> (exists a0, pq_peek q = Some (cur, a0)) ->
    crit fuel s q bound cur group groups = Some (q', gs) ->
    forall y, In y (items q) ->
      In y (items q') \/ key_cancelled s (akey (ival y)) = true \/ In (aop (ival y)) (concat gs).
Proof. exact crit_complete. Qed.
Print Assumptions c10_no_skipped_occurrence.

(* Instance of partition independence: two periodic actions (periods 3 and 1 ns,
   coinciding every 3 ns) up to T = 10 under three different partitions. *)
Definition c10_bench : bench :=
  {| bmodels := [{| mcap := 4; mplace := Added; mparent := None; mnamed := true; minit := [];
                    mhandlers := [[]; []]; mrepliers := []; mouts := []; mreqs := [] |}];
     bsinks := []; bsources := []; bclock := []; btol := None; bt0 := 0;
     bugF1 := false; bugF2 := false; bugF3 := false; bugF4 := false |}.
Definition c10_fired (cs : list (cmd * list nat)) : list (nat * Z) :=
  flat_map (fun o => flat_map (fun e => match e with EHandler _ i _ t => [(i, t)] | _ => [] end) (olog o))
           (sim_exec c10_bench 3000 []
              ((CSchedEvent (DAbs 2) 0 0 7 None (Some 3%Z), []) :: (CSchedEvent (DAbs 1) 0 1 8 None (Some 1%Z), []) :: cs)).
Definition c10_expected : list (nat * Z) :=
  map (fun p => (Z.to_nat (fst p), snd p))
    [(1,1); (0,2); (1,2); (1,3); (1,4); (0,5); (1,5); (1,6); (1,7); (0,8); (1,8); (1,9); (1,10)]%Z.
Example c10_partition_independent :
  c10_fired [(CStepUntil (DAbs 10), [])] = c10_expected /\
  c10_fired [(CStep, []); (CStep, []); (CStepUntil (DAbs 6), []); (CStep, []); (CStepUntil (DRel 3), [])] = c10_expected /\
  c10_fired (map (fun _ => (CStep, [])) (seqn 0 10)) = c10_expected.
Proof. vm_compute. auto. Qed.
