(* C02 — Causal message ordering between models: per-step FIFO facts, the
   mailbox trace theorem and 'processing order = enqueue order' for any
   execution (the happens-before relation itself is not a Coq definition:
   see MANIFEST level note). *)
Require Import NX.Base.Prelude NX.Base.ListX NX.Model.PQ NX.Model.Sim.
Require Import NX.Proofs.SimBasic NX.Proofs.SimSched NX.Proofs.NetProofs NX.Proofs.NetTrace NX.Proofs.NetCausal.

(* In every step of every schedule, every mailbox either stays as it is, loses
   its HEAD (its owner starts that message) or gains ONE message at its TAIL:
   messages of a mailbox are never reordered, and a message enqueued earlier is
   started earlier. *)
Theorem c02_mailbox_order_step :
  forall b s l s' m q,
    net_step b s l = Some s' -> nth_error (boxes s) m = Some q ->
    exists q', nth_error (boxes s') m = Some q' /\
      (q' = q \/ (exists g, q = g :: q') \/ (exists g, q' = q ++ [g])).
Proof. exact net_step_mailbox_order. Qed.
Print Assumptions c02_mailbox_order_step.

(* Program order: a handler does not start its next port operation (nor finish)
   while a delivery of the current one is outstanding - "M1 then M2 by the same
   model" means M1 is enqueued before M2 is even attempted. *)
Theorem c02_program_order :
  forall b s t x f d ds,
    nth_error (tasks s) t = Some x -> tfr x = Some f -> fpend f = d :: ds -> step_op b s t = None.
Proof. exact step_op_blocked. Qed.
Print Assumptions c02_program_order.

(* A delivery needs room in the target mailbox; otherwise the sender stays
   suspended (it is not dropped and does not overtake). *)
Theorem c02_enqueue_at_tail :
  forall b s t i x f m g thr sp q s',
    nth_error (tasks s) t = Some x -> tfr x = Some f ->
    nth_error (fpend f) i = Some {| dtgt := DModel m g; dthrow := thr |} ->
    nth_error (bmodels b) m = Some sp -> mplace sp <> Dropped -> nth_error (boxes s) m = Some q ->
    step_deliver b s t i = Some s' ->
    nth_error (boxes s') m = Some (q ++ [g]) /\ length q < mcap sp /\ inflight s' = (inflight s + 1)%Z.
Proof. exact deliver_appends. Qed.
Print Assumptions c02_enqueue_at_tail.

(* Trace level, for ANY execution (any sequence of enabled steps = any schedule,
   any number of steps) and any mailbox: its content is its initial content
   followed by the messages enqueued into it, in enqueue order, minus the prefix
   consumed by its owner.  Nothing lost, duplicated, reordered or invented; the
   owner consumes exactly the first deqs messages, in order. *)
Theorem c02_mailbox_trace :
  forall b ls s s' m q,
    net_exec b s ls = Some s' -> nth_error (boxes s) m = Some q ->
    deqs b s ls m <= length (q ++ enqs b s ls m) /\
    nth_error (boxes s') m = Some (skipn (deqs b s ls m) (q ++ enqs b s ls m)).
Proof. exact mailbox_trace. Qed.
Print Assumptions c02_mailbox_trace.

(* Processing order = enqueue order, for ANY execution: the messages a model has started
   processing, in the order it started them, are the first deqs messages of (its initial mailbox
   content followed by everything enqueued into it, in enqueue order).  So if M1 is enqueued into
   B's mailbox before M3 - which is what "the sending of M1 happens before the sending of M3" means
   here: a send completes by its enqueue (c02_program_order), and a chain of sends and deliveries
   only goes forward along the execution - then B processes M1 before M3, whatever the schedule,
   the mailbox capacities and the suspensions of senders on full mailboxes. *)
Theorem c02_processed_prefix_of_enqueued :
  forall b ls s s' m q,
    net_exec b s ls = Some s' -> nth_error (boxes s) m = Some q ->
    procs b s ls m = firstn (deqs b s ls m) (q ++ enqs b s ls m).
Proof. exact procs_prefix. Qed.
Print Assumptions c02_processed_prefix_of_enqueued.

Theorem c02_processed_in_enqueue_order :
  forall b ls s s' m q k g,
    net_exec b s ls = Some s' -> nth_error (boxes s) m = Some q ->
    nth_error (procs b s ls m) k = Some g -> nth_error (q ++ enqs b s ls m) k = Some g.
Proof. exact processed_in_enqueue_order. Qed.
Print Assumptions c02_processed_in_enqueue_order.

(* a run of the executor under any choice sequence is such an execution, ending
   in a state where no step is enabled *)
Theorem c02_mailbox_trace_run :
  forall b fuel ch s nd s' nd',
    net_run b fuel ch s nd = Some (s', nd') -> exists ls, net_exec b s ls = Some s' /\ net_enabled b s' = [].
Proof. exact net_run_is_exec. Qed.
Print Assumptions c02_mailbox_trace_run.

(* The triangle of the documentation (A -> B, then A -> C, C -> B) with
   capacity-1 mailboxes: B handles M1 before M3 under every choice list of
   length <= 4 over {0,1,2}. *)
Definition c02_bench : bench :=
  {| bmodels := [{| mcap := 1; mplace := Added; mparent := None; mnamed := true; minit := [];
                    mhandlers := [[OSend 0 EIn; OSend 1 (EInPlus 1)]]; mrepliers := [];
                    mouts := [[{| ckeep := KAll; cadd := 0; ctgt := TgtModel 1 0 |}];
                              [{| ckeep := KAll; cadd := 0; ctgt := TgtModel 2 0 |}]]; mreqs := [] |};
                 {| mcap := 1; mplace := Added; mparent := None; mnamed := true; minit := [];
                    mhandlers := [[]]; mrepliers := []; mouts := []; mreqs := [] |};
                 {| mcap := 1; mplace := Added; mparent := None; mnamed := true; minit := [];
                    mhandlers := [[OSend 0 (EInPlus 1000)]]; mrepliers := [];
                    mouts := [[{| ckeep := KAll; cadd := 0; ctgt := TgtModel 1 0 |}]]; mreqs := [] |}];
     bsinks := []; bsources := []; bclock := []; btol := None; bt0 := 0;
     bugF1 := false; bugF2 := false; bugF3 := false; bugF4 := false |}.
Fixpoint c02_lists (n : nat) : list (list nat) :=
  match n with O => [[]] | S n' => [] :: flat_map (fun l => [0 :: l; 1 :: l; 2 :: l]) (c02_lists n') end.
Definition c02_b_order (ch : list nat) : list Z :=
  flat_map (fun o => flat_map (fun e => match e with EHandler 1 _ v _ => [v] | _ => [] end) (olog o))
           (sim_exec c02_bench 600 [] [(CProcEvent 0 0 7, ch)]).
Example c02_triangle_instance :
  forallb (fun ch => match c02_b_order ch with [7; 1008]%Z => true | _ => false end) (c02_lists 4) = true.
Proof. vm_compute. reflexivity. Qed.
