(* C09 — Cancellation takes effect up to the last moment. *)
Require Import NX.Base.Prelude NX.Base.ListX NX.Model.PQ NX.Model.Sim.
Require Import NX.Proofs.SimBasic NX.Proofs.SimQueue NX.Proofs.SimSched NX.Proofs.SimTerm NX.Proofs.SimComplete.

(* Queue-side check: every action that the critical section of a step turns
   into a task had a key that was not cancelled when the step pulled it (any
   queue, bound, current key; [group]/[groups] = what was collected before). *)
Theorem c09_cancelled_before_step_never_spawned :
  forall fuel s q bound cur group groups q' gs,
    crit fuel s q bound cur group groups = Some (q', gs) ->
    (exists a0, pq_peek q = Some (cur, a0) /\ live s a0) ->
    forall o, In o (concat gs) ->
      In o (concat groups) \/ In o group \/ exists a, o = aop a /\ live s a.
Proof. exact crit_live. Qed.
Print Assumptions c09_cancelled_before_step_never_spawned.

(* peek_next_key hands back a key only for a live head and never inserts: a
   cancelled periodic action is discarded, not re-scheduled. *)
Theorem c09_cancelled_head_discarded :
  forall fuel s q bound k q',
    peek_next fuel s q bound = (Some k, q') ->
    exists a, pq_peek q' = Some (k, a) /\ live s a /\ le_bound (fst k) bound = true.
Proof. exact peek_next_head. Qed.
Print Assumptions c09_cancelled_head_discarded.

Theorem c09_peek_never_inserts :
  forall fuel s q bound nk q',
    peek_next fuel s q bound = (nk, q') -> forall y, In y (items q') -> In y (items q).
Proof. intros fuel s q bound nk q' H. exact (proj1 (peek_next_spec fuel s q bound nk q' H)). Qed.
Print Assumptions c09_peek_never_inserts.

(* Handler-side check (events on a model input): if the key is cancelled by the
   time the model dequeues the event - e.g. by an earlier event of the same
   model at the same time - the handler does not run and nothing is logged. *)
Theorem c09_cancelled_before_dequeue_not_run :
  forall b s t x m sp g rest key,
    nth_error (tasks s) t = Some x -> tk x = TKModel m -> tfr x = None -> tdone x = false ->
    tinit x = false -> nth_error (bmodels b) m = Some sp ->
    nth_error (boxes s) m = Some (g :: rest) -> mkd g = KEvent key -> key_cancelled s key = true ->
    exists s', step_start b s t = Some s' /\ log s' = log s /\
               nth_error (tasks s') t = Some (tset_tfr x (Some (empty_frame [] (mval g) None))).
Proof. exact step_start_cancelled. Qed.
Print Assumptions c09_cancelled_before_dequeue_not_run.

(* Cancelling (through any holder of the key: keys are shared flags) changes one
   flag and nothing else: other actions are unaffected, and cancelling after the
   action ran has no further effect. *)
Theorem c09_cancel_only_its_key :
  forall s k,
    let s' := cancel_key s k in
    queue s' = queue s /\ now s' = now s /\ tasks s' = tasks s /\ boxes s' = boxes s /\ log s' = log s /\
    (forall k', k' <> k -> key_cancelled s' k' = key_cancelled s k') /\
    (forall i, k = Some i -> i < length (cancelled s) -> key_cancelled s' k = true).
Proof. exact cancel_key_spec. Qed.
Print Assumptions c09_cancel_only_its_key.

(* Other actions are unaffected by a cancellation, and a live action due now is
   never lost: an entry leaves the queue during a step only if ITS key is
   cancelled or it is fired. *)
Theorem c09_others_unaffected :
  forall fuel s q bound cur group groups q' gs,
    pq_wf q -> q_from q (fst cur) -> (exists a0, pq_peek q = Some (cur, a0)) ->
    crit fuel s q bound cur group groups = Some (q', gs) ->
    forall y, In y (items q) ->
      In y (items q') \/ key_cancelled s (akey (ival y)) = true \/ In (aop (ival y)) (concat gs).
Proof. exact crit_complete. Qed.
Print Assumptions c09_others_unaffected.

(* non-vacuity: cancel before the step, cancel by an earlier same-time event of
   the same model (slot 0 of the model), cancel after firing, periodic stops *)
Definition c09_bench : bench :=
  {| bmodels := [{| mcap := 8; mplace := Added; mparent := None; mnamed := true; minit := [];
                    mhandlers := [[]; [OSched (DRel 5) 0 (EInPlus 100) (Some 0) None]; [OCancel 0]];
                    mrepliers := []; mouts := []; mreqs := [] |}];
     bsinks := []; bsources := []; bclock := []; btol := None; bt0 := 0;
     bugF1 := false; bugF2 := false; bugF3 := false; bugF4 := false |}.
Example c09_nonvacuous :
  map (fun o => length (filter (fun e => match e with EHandler _ _ _ _ => true | _ => false end) (olog o)))
      (sim_exec c09_bench 800 []
         [(CSchedEvent (DAbs 10) 0 0 1 (Some 0) None, []); (CSchedEvent (DAbs 10) 0 0 2 (Some 1) (Some 10%Z), []);
          (CCancel 0, []); (CStep, []); (CStep, []); (CCancel 1, []); (CStep, []);
          (CSchedEvent (DAbs 50) 0 1 3 None None, []); (CStep, []);
          (CSchedEvent (DAbs 55) 0 2 4 None None, []); (CStep, []); (CStep, [])])
  = [0; 0; 0; 0; 1; 1; 0; 0; 0; 1; 0; 1; 0].
Proof. vm_compute. reflexivity. Qed.
