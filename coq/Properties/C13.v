(* C13 — Task lifecycle is safe under every interleaving of its handles.
   Model: Model/TaskSM.v (sequentially consistent, read-modify-write
   granularity); invariant: Model/TaskInv.v.  See MANIFEST level note for what
   is partial. *)
Require Import NX.Base.Prelude NX.Model.TaskSM NX.Model.TaskInv NX.Proofs.TaskProofs NX.Proofs.TaskLayout NX.Proofs.TaskMeaning.

(* The invariant holds in every state reachable from spawn / spawn_and_forget
   under ANY sequence of handle operations by any number of threads and wakers
   (operations that are not enabled are skipped). *)
Theorem c13_invariant_spawn : forall ops, inv_b (ts_run init_spawn ops) = true.
Proof. intros ops. apply ts_run_inv, init_spawn_inv. Qed.
Print Assumptions c13_invariant_spawn.

Theorem c13_invariant_forget : forall ops, inv_b (ts_run init_forget ops) = true.
Proof. intros ops. apply ts_run_inv, init_forget_inv. Qed.
Print Assumptions c13_invariant_forget.

Theorem c13_step : forall s o s', inv_b s = true -> ts_step s o = Some s' -> inv_b s' = true.
Proof. exact ts_step_inv. Qed.
Print Assumptions c13_step.

(* What the invariant says (each is a conjunct of inv_b, projected):
   - the future is polled by at most one thread at a time, and never after it
     completed, was cancelled-and-dropped or panicked (badrun = badpoll = 0:
     a second concurrent runner / a poll of a core that is not the live future
     would bump them);
   - nothing is accessed after release and nothing is released twice
     (badfree = 0), the future is dropped at most once, the output dropped or
     taken at most once, the memory freed at most once;
   - a Runnable exists (queued or running) exactly when POLLING and (wake
     count <> 0 or CLOSED): a wake-up while pending always leaves a Runnable
     that will poll again;
   - refs = live wakers + token + promise (+ the canceller's kept reference);
   - no leak: while the task is allocated some handle is still alive; once all
     are gone the memory has been freed exactly once and the core is empty. *)
Theorem c13_meaning :
  forall s, inv_b s = true ->
    badpoll s = 0 /\ badrun s = 0 /\ badfree s = 0 /\ queued s + active s <= 1 /\
    futdrops s <= 1 /\ outdrops s <= 1 /\ deallocs s <= 1 /\
    (alloc s = true -> refs s = wakers s + b2n (token s) + b2n (promise s) + b2n (cdrop s)) /\
    (alloc s = true -> (queued s + active s = 1 <-> runnable_exists s = true)) /\
    (alloc s = true -> wakers s + b2n (token s) + b2n (promise s) + queued s + active s + b2n (cdrop s) >= 1) /\
    (alloc s = false -> deallocs s = 1 /\ futdrops s = 1 /\ wakers s = 0 /\ token s = false /\ promise s = false /\
                        queued s = 0 /\ active s = 0).
Proof. exact inv_meaning. Qed.
Print Assumptions c13_meaning.

(* the model's initial states are the state words written by the source *)
Theorem c13_initial_words :
  Consts.TASK_INIT_SPAWN = encode 1 2 false true /\ Consts.TASK_INIT_SPAWN_FORGET = encode 1 1 false true.
Proof. split; [exact layout_init_spawn|exact layout_init_forget]. Qed.
Print Assumptions c13_initial_words.
