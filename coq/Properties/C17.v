(* C17 — Event sinks: FIFO bounded buffer, last-value slot, open/close.
   Statements only. *)
Require Import NX.Base.Prelude NX.Model.Sink NX.Proofs.SinkProofs.

(* EventBuffer = a log of accepted writes with a read cursor (lspec): for every
   capacity >= 1, initial open/closed state and operation sequence. *)
Theorem c17_buffer :
  forall (V : Type) (cap : nat) (o : bool) (ops : list (sink_op V)),
    1 <= cap ->
    ebuf_run (ebuf_new cap o) ops = lspec_run (lspec_new cap o) ops.
Proof. exact ebuf_refines. Qed.
Print Assumptions c17_buffer.

(* In every reachable state the buffer holds exactly the part of the accepted-
   write log after the cursor, which is never longer than the capacity. *)
Theorem c17_buffer_content :
  forall (V : Type) (cap : nat) (o : bool) (ops : list (sink_op V)),
    1 <= cap ->
    let b := ebuf_exec (ebuf_new cap o) ops in
    let s := lspec_exec (lspec_new cap o) ops in
    bq b = skipn (lcur s) (llog s) /\ lcur s <= length (llog s) /\
    length (llog s) - lcur s <= cap /\ bopen b = lopen s.
Proof. exact ebuf_content. Qed.
Print Assumptions c17_buffer_content.

(* Meaning of the specification: a read returns the entry under the cursor and
   moves past it (so reads come out in write order, each at most once). *)
Theorem c17_spec_read :
  forall (V : Type) (s : lspec V) x s', lspec_step s SRead = (s', Some x) ->
    nth_error (llog s) (lcur s) = Some x /\ lcur s' = S (lcur s) /\ llog s' = llog s.
Proof. exact lspec_read. Qed.
Print Assumptions c17_spec_read.

(* A write is ignored iff the sink is closed; an accepted write is appended to
   the log and discards the oldest unread entry exactly when cap are unread. *)
Theorem c17_spec_write :
  forall (V : Type) (s : lspec V) v,
    let s' := fst (lspec_step s (SWrite v)) in
    (lopen s = false -> s' = s) /\
    (lopen s = true -> llog s' = llog s ++ [v] /\
       lcur s' = (if Nat.eqb (length (llog s) - lcur s) (lcap s) then S (lcur s) else lcur s)).
Proof. exact lspec_write. Qed.
Print Assumptions c17_spec_write.

Theorem c17_spec_cursor_monotone :
  forall (V : Type) (s : lspec V) o, lcur s <= lcur (fst (lspec_step s o)).
Proof. exact lspec_cur_mono. Qed.
Print Assumptions c17_spec_cursor_monotone.

(* EventSlot: a read yields the last accepted write since the previous read,
   once. *)
Theorem c17_slot :
  forall (V : Type) (ops : list (sink_op V)) (s : eslot V),
    eslot_run s ops = slot_spec V (sopen s) (sval s) ops.
Proof. exact eslot_refines. Qed.
Print Assumptions c17_slot.

Example c17_nonvacuous :
  ebuf_run (ebuf_new 2 true)
    [SWrite 1; SWrite 2; SWrite 3; SRead; SClose; SWrite 4; SOpen; SWrite 5; SRead; SRead; SRead]%Z
  = [None; None; None; Some 2; None; None; None; None; Some 3; Some 5; None]%Z
  /\ eslot_run (eslot_new true) [SWrite 1; SWrite 2; SRead; SRead; SClose; SWrite 3; SRead]%Z
  = [None; None; Some 2; None; None; None; None]%Z.
Proof. vm_compute. auto. Qed.
