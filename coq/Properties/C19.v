(* C19 — Dropping a simulation releases everything exactly once.
   Task level only (see MANIFEST level note): cancelling a task - which is what
   dropping the executor does to every task - while wakers and a runner race
   with it releases the future exactly once and the memory exactly once, after
   the last handle, with no access after the release. *)
Require Import NX.Base.Prelude NX.Model.TaskSM NX.Model.TaskInv NX.Proofs.TaskProofs NX.Proofs.TaskMeaning.

Theorem c19_cancel_releases :
  forall ops s, s = ts_run init_forget ops \/ s = ts_run init_spawn ops ->
    inv_b s = true.
Proof. exact reachable_inv. Qed.
Print Assumptions c19_cancel_releases.

(* in particular, in any reachable state where every handle is gone the task
   memory has been freed exactly once, the future dropped exactly once *)
Theorem c19_no_leak_no_double_free :
  forall ops s, s = ts_run init_forget ops \/ s = ts_run init_spawn ops ->
    wakers s = 0 -> token s = false -> promise s = false -> queued s = 0 -> active s = 0 -> cdrop s = false ->
    alloc s = false /\ deallocs s = 1 /\ futdrops s = 1 /\ outdrops s <= 1 /\ badfree s = 0.
Proof. exact no_leak. Qed.
Print Assumptions c19_no_leak_no_double_free.

(* a cancel-heavy run: cancel while the runner is between its load and its poll *)
Example c19_nonvacuous :
  let s := ts_run init_forget [TRunStart; TTokenCancel; TRunBegin; TPollPending; TRunBegin; TCancelClose] in
  alloc s = false /\ futdrops s = 1 /\ deallocs s = 1 /\ badfree s = 0.
Proof. vm_compute. repeat split; reflexivity. Qed.

(* ---- the one-shot reply slot (Model/Slot.v; util/slot.rs) ----
   For the constants GENERATED from the current util/slot.rs (after the shape of write / try_read / the two drop
   handlers has been checked), for every interleaving of the writer (write or drop) and the reader (any number
   of try_read, then drop) at one shared access per step: the allocation is never touched after it is freed nor
   freed twice, the value is never dropped or moved out twice, and once both handles are gone the allocation is
   freed and the value, if one was written, has been moved out by try_read or dropped.  The model is finite: the
   proof computes its reachable states and checks closure under every step. *)
Require Import NX.Model.Slot NX.gen.SlotProg NX.Proofs.SlotProofs NX.Proofs.SlotGen.

Theorem c19_slot_source_is_proved_program : slot_gen = slot_fixed.
Proof. exact slot_gen_is_proved. Qed.
Print Assumptions c19_slot_source_is_proved_program.

Theorem c19_slot_no_misuse : forall ls, sbad (os_run slot_gen os_init ls) = false.
Proof. exact slot_gen_no_misuse. Qed.
Print Assumptions c19_slot_no_misuse.

Theorem c19_slot_released_exactly_once :
  forall ls, let s := os_run slot_gen os_init ls in
    swp s = WDone -> srp s = RDone -> sbox s = false /\ sval s <> VInit.
Proof. exact slot_gen_released_exactly_once. Qed.
Print Assumptions c19_slot_released_exactly_once.

Theorem c19_slot_value_read_at_most_once :
  forall ls, let s := os_run slot_gen os_init ls in sgot s = true -> sval s = VMoved.
Proof. exact slot_gen_value_read_at_most_once. Qed.
Print Assumptions c19_slot_value_read_at_most_once.

(* the mask of a write that sets POPULATED only: the value of a reply that is never read is leaked *)
Example c19_slot_leaky_mask_refuted :
  let s := os_run slot_leaky os_init [SLWrite; SLW; SLRDrop; SLR] in
  swp s = WDone /\ srp s = RDone /\ sbox s = true /\ sval s = VInit.
Proof. exact slot_leaky_refuted. Qed.
