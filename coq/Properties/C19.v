(* C19 — Dropping a simulation releases everything exactly once.
   Task level only (see MANIFEST level note): cancelling a task - which is what
   dropping the executor does to every task - while wakers and a runner race
   with it releases the future exactly once and the memory exactly once, after
   the last handle, with no access after the release. *)
Require Import NX.Base.Prelude NX.Model.TaskSM NX.Model.TaskInv NX.Proofs.TaskProofs NX.Proofs.TaskMeaning.

Theorem c19_cancel_releases :
  forall ops s, s = ts_run init_forget ops \/ s = ts_run init_spawn ops ->
    inv_b s = true.
Proof. exact reachable_inv. Qed.
Print Assumptions c19_cancel_releases.

(* in particular, in any reachable state where every handle is gone the task
   memory has been freed exactly once, the future dropped exactly once *)
Theorem c19_no_leak_no_double_free :
  forall ops s, s = ts_run init_forget ops \/ s = ts_run init_spawn ops ->
    wakers s = 0 -> token s = false -> promise s = false -> queued s = 0 -> active s = 0 -> cdrop s = false ->
    alloc s = false /\ deallocs s = 1 /\ futdrops s = 1 /\ outdrops s <= 1 /\ badfree s = 0.
Proof. exact no_leak. Qed.
Print Assumptions c19_no_leak_no_double_free.

(* a cancel-heavy run: cancel while the runner is between its load and its poll *)
Example c19_nonvacuous :
  let s := ts_run init_forget [TRunStart; TTokenCancel; TRunBegin; TPollPending; TRunBegin; TCancelClose] in
  alloc s = false /\ futdrops s = 1 /\ deallocs s = 1 /\ badfree s = 0.
Proof. vm_compute. repeat split; reflexivity. Qed.
