(* C07 — Same-time events from one origin are processed in scheduling order.
   The property is the composition of four facts, each proved for all inputs;
   the end-to-end composition over traces is checked by correspondence and by
   the direct oracle, not (yet) by one trace theorem: see MANIFEST level note. *)
Require Import NX.Base.Prelude NX.Base.ListX NX.Model.PQ NX.Model.Sink NX.Model.Sim.
Require Import NX.Proofs.PQProofs NX.Proofs.SimBasic NX.Proofs.SimQueue NX.Proofs.SimSched NX.Proofs.SimTerm NX.Proofs.SimComplete NX.Proofs.SimOrder.

(* 1. Among equal keys (time, origin) the queue hands out entries in insertion
      order: it refines "first entry among those with the least key". *)
Theorem c07_queue_stable :
  forall (V : Type) (ops : list (pq_op V)), pq_run pq_empty ops = spec_run [] ops.
Proof. exact pq_refines. Qed.
Print Assumptions c07_queue_stable.

(* 1'. A request is inserted behind everything already queued (next epoch), and
      a periodic occurrence is (re-)inserted when the preceding one is pulled. *)
Theorem c07_insert_last :
  forall s origin d mk keyed period chk s' k,
    sched_request s origin d mk keyed period chk = (s', 0%N, k) ->
    exists it, items (queue s') = items (queue s) ++ [it] /\
               ikey it = (dl_time d (now s), origin) /\ iepoch it = next_epoch (queue s).
Proof.
  intros s origin d mk keyed period chk s' k H.
  destruct (sched_request_ok _ _ _ _ _ _ _ _ _ H) as (_ & E & _).
  eexists. split; [exact E|]. split; reflexivity.
Qed.
Print Assumptions c07_insert_last.

Theorem c07_periodic_reinserted_at_pull :
  forall q k a q1 p,
    pq_pull q = (Some (k, a), q1) -> aperiod a = Some p ->
    pull_next q = Some (k, a, pq_insert q1 ((fst k + p)%Z, snd k) a).
Proof. exact pull_next_periodic. Qed.
Print Assumptions c07_periodic_reinserted_at_pull.

(* 1''. The critical section of a step pulls entries in STRICTLY increasing
      (key, epoch) order: crit_i is crit keeping the pulled items (c07_crit_ghost),
      and the concatenation of its groups is strictly sorted - so inside a group
      (one key) the ops are in epoch = scheduling order, and an entry is fired
      after every entry with a smaller key or the same key and a smaller epoch. *)
Theorem c07_crit_ghost :
  forall fuel s q bound cur group groups,
    crit fuel s q bound cur (ops_of group) (map ops_of groups) =
    option_map (fun p => (fst p, map ops_of (snd p))) (crit_i fuel s q bound cur group groups).
Proof. exact crit_i_spec. Qed.
Print Assumptions c07_crit_ghost.

Theorem c07_fired_in_key_epoch_order :
  forall fuel s q bound cur group groups q' gs,
    pq_wf q -> q_from q (fst cur) -> (exists m0, pq_peek_item q = Some m0 /\ ikey m0 = cur) ->
    strictly_sorted (concat groups ++ group) ->
    (forall x y, In x (concat groups ++ group) -> In y (items q) -> item_lt action x y) ->
    crit_i fuel s q bound cur group groups = Some (q', gs) ->
    strictly_sorted (concat gs).
Proof. exact crit_i_sorted. Qed.
Print Assumptions c07_fired_in_key_epoch_order.

(* 2. Actions pulled with one key go, in pull order, into ONE sequential task;
      a task does not start its next op while a delivery of the current one is
      outstanding. *)
Theorem c07_task_sequential :
  forall b s t x f d ds,
    nth_error (tasks s) t = Some x -> tfr x = Some f -> fpend f = d :: ds -> step_op b s t = None.
Proof. exact step_op_blocked. Qed.
Print Assumptions c07_task_sequential.

(* 3. Mailboxes are FIFO and bounded: a delivery appends at the back (only when
      there is room); the model task starts the message at the head. *)
Theorem c07_mailbox_fifo :
  forall b s t i x f m g thr sp q s',
    nth_error (tasks s) t = Some x -> tfr x = Some f ->
    nth_error (fpend f) i = Some {| dtgt := DModel m g; dthrow := thr |} ->
    nth_error (bmodels b) m = Some sp -> mplace sp <> Dropped -> nth_error (boxes s) m = Some q ->
    step_deliver b s t i = Some s' ->
    nth_error (boxes s') m = Some (q ++ [g]) /\ length q < mcap sp /\ inflight s' = (inflight s + 1)%Z.
Proof. exact deliver_appends. Qed.
Print Assumptions c07_mailbox_fifo.

(* non-vacuity / end-to-end instance: five same-time events of one origin with a
   mailbox of capacity 1 (the sequential task blocks four times), plus a periodic
   one whose second occurrence was re-inserted after a later one-shot request *)
Definition c07_bench : bench :=
  {| bmodels := [{| mcap := 1; mplace := Added; mparent := None; mnamed := true; minit := [];
                    mhandlers := [[]]; mrepliers := []; mouts := []; mreqs := [] |}];
     bsinks := []; bsources := []; bclock := []; btol := None; bt0 := 0;
     bugF1 := false; bugF2 := false; bugF3 := false; bugF4 := false |}.
Example c07_nonvacuous :
  forall ch, length ch <= 2 -> Forall (fun c => c < 3) ch ->
  map olog (skipn 7 (sim_exec c07_bench 2000 []
     [(CSchedEvent (DAbs 10) 0 0 1 None (Some 10%Z), []); (CSchedEvent (DAbs 20) 0 0 2 None None, []);
      (CSchedEvent (DAbs 20) 0 0 3 None None, []); (CStep, []);
      (CSchedEvent (DAbs 20) 0 0 4 None None, []); (CSchedEvent (DAbs 20) 0 0 5 None None, []);
      (CStep, ch)]))
  = [[ETime 20; EClock 20; EHandler 0 0 2 20; EHandler 0 0 3 20; EHandler 0 0 1 20;
      EHandler 0 0 4 20; EHandler 0 0 5 20]]%Z.
Proof.
  intros ch L F. destruct ch as [|c1 [|c2 [|c3 r]]]; cbn in L; try lia.
  - vm_compute. reflexivity.
  - inversion F; subst. destruct c1 as [|[|[|c1]]]; try lia; vm_compute; reflexivity.
  - inversion F as [|? ? F1 F2]; subst. inversion F2; subst.
    destruct c1 as [|[|[|c1]]]; try lia; destruct c2 as [|[|[|c2]]]; try lia; vm_compute; reflexivity.
Qed.

(* ---- SeqFuture::poll (util/seq_futures.rs, Model/SeqFut.v) ----
   "all actions with an identical key are chained in one SeqFuture and polled sequentially": for the loop
   body GENERATED from the current seq_futures.rs (translator T7), every non-empty list of sub-futures and
   every number of Pending answers of each: the sub-futures are polled strictly in order, each until it is
   Ready and never again (trace = sq_expected, no fault, no out-of-bounds index), the SeqFuture is Ready
   exactly with the poll in which the last one becomes Ready, and not before. *)
Require Import NX.Model.SeqFut NX.gen.SeqFutProg NX.Proofs.SeqFutProofs NX.Proofs.SeqFutGen.

Theorem c07_seqfuture_source_is_proved_program : seqfut_gen = seqfut_fixed.
Proof. exact seqfut_gen_is_proved. Qed.
Print Assumptions c07_seqfuture_source_is_proved_program.

Theorem c07_seqfuture_polls_in_order_each_to_completion :
  forall k ks,
    sq_polls (S (sum_list (k :: ks))) seqfut_gen (k :: ks) sq_init
    = ({| qidx := length (k :: ks); qcur := 0; qtrace := sq_expected 0 (k :: ks); qbad := false; qoob := false |}, true)
    /\ forall m, m <= sum_list (k :: ks) -> snd (sq_polls m seqfut_gen (k :: ks) sq_init) = false.
Proof. exact seqfut_gen_spec. Qed.
Print Assumptions c07_seqfuture_polls_in_order_each_to_completion.

Example c07_seqfuture_nonvacuous :
  fst (sq_polls 4 seqfut_fixed [1; 0; 2] sq_init)
  = {| qidx := 3; qcur := 0; qtrace := [0; 0; 1; 2; 2; 2]; qbad := false; qoob := false |}.
Proof. exact seqfut_nonvacuous. Qed.

(* a body that advances twice skips sub-futures (an action silently dropped) *)
Example c07_seqfuture_skip_refuted : sq_check seqfut_skip [1; 0; 2] = false.
Proof. exact seqfut_skip_refuted. Qed.
