(* C11 — Failures are classified and the simulation stays terminated. *)
Require Import NX.Base.Prelude NX.Base.ListX NX.Model.PQ NX.Model.Sim.
Require Import NX.Proofs.SimBasic NX.Proofs.SimDriver NX.Proofs.SimQueue NX.Proofs.SimTop.

(* After termination every attempt to run the simulation (step, step_until,
   process_event, process_query, process) returns Terminated and leaves the
   WHOLE state unchanged: no time write, no clock call, no task spawned, no
   handler run, nothing pulled from the queue. *)
Theorem c11_fatal_sticky :
  forall b fuel s c ch,
    bugF1 b = false -> terminated s = true -> is_running c = true ->
    exec_cmd b fuel s c ch = (s, RTerminated, false).
Proof. exact terminated_sticky. Qed.
Print Assumptions c11_fatal_sticky.

(* Every fatal result (Deadlock, MessageLoss, NoRecipient, Panic, OutOfSync)
   leaves the simulation terminated. *)
Theorem c11_fatal_terminates :
  forall b fuel s c ch s' r nd,
    exec_cmd b fuel s c ch = (s', r, nd) -> is_fatal r = true -> terminated s' = true.
Proof. exact exec_cmd_fatal. Qed.
Print Assumptions c11_fatal_terminates.

(* Non-fatal errors: an invalid step_until deadline and a rejected scheduling
   request change nothing (so the simulation stays usable). *)
Theorem c11_invalid_deadline_nonfatal :
  forall b fuel s d ch,
    terminated s = false -> (dl_time d (now s) < now s)%Z ->
    exec_cmd b fuel s (CStepUntil d) ch = (s, RInvalidDeadline (dl_time d (now s)), false).
Proof. exact invalid_deadline_unchanged. Qed.
Print Assumptions c11_invalid_deadline_nonfatal.

Theorem c11_sched_error_nonfatal :
  forall b fuel s c ch s' code nd,
    is_sched_cmd c = true ->
    exec_cmd b fuel s c ch = (s', RSched code, nd) -> code <> 0%N -> s' = s.
Proof. exact sched_error_unchanged. Qed.
Print Assumptions c11_sched_error_nonfatal.

(* How a run that stops is classified (Simulation::run): by definition of
   classify, Panic carries the panicking model's qualified name and payload,
   NoRecipient the sending model (none for scheduler/source actions). *)
Theorem c11_run_result :
  forall b fuel ch s s' r nd,
    sim_run b fuel ch s = (s', r, nd) ->
    (terminated s = true -> s' = s /\ r = RTerminated) /\
    (terminated s = false ->
       r = RFuel \/
       (r <> RTerminated /\ r <> RFuel /\ r <> RHang /\
        now s' = now s /\ clockpos s' = clockpos s /\ dkeys s' = dkeys s /\
        terminated s' = negb (is_ok r) /\
        exists l, log s' = l ++ log s /\ forallb plain_entry l = true)).
Proof. exact sim_run_spec. Qed.
Print Assumptions c11_run_result.

(* The pinned tree violated c11_fatal_sticky (finding F1): with the bug switch on,
   a step after a fatal panic moves the time and calls the clock. *)
Definition c11_bench (f1 : bool) : bench :=
  {| bmodels := [{| mcap := 4; mplace := Added; mparent := None; mnamed := true; minit := [];
                    mhandlers := [[OPanic 9]; []]; mrepliers := []; mouts := []; mreqs := [] |}];
     bsinks := []; bsources := []; bclock := []; btol := None; bt0 := 0;
     bugF1 := f1; bugF2 := false; bugF3 := false; bugF4 := false |}.
Definition c11_cmds : list (cmd * list nat) := [(CSchedEvent (DAbs 10) 0 0 1 None None, []); (CSchedEvent (DAbs 20) 0 1 2 None None, []);
                        (CStep, []); (CStep, []); (CStepUntil (DAbs 50), [])].
Example c11_refuted_on_pinned_tree :
  map (fun o => (ores o, otime o)) (sim_exec (c11_bench true) 300 [] c11_cmds)
  = [(ROk, 0); (RSched 0, 0); (RSched 0, 0); (RPanic [Some 0%nat] 9, 10); (RTerminated, 20); (ROk, 50)]%Z.
Proof. vm_compute. reflexivity. Qed.
Example c11_holds_after_fix :
  map (fun o => (ores o, otime o)) (sim_exec (c11_bench false) 300 [] c11_cmds)
  = [(ROk, 0); (RSched 0, 0); (RSched 0, 0); (RPanic [Some 0%nat] 9, 10); (RTerminated, 10); (RTerminated, 10)]%Z.
Proof. vm_compute. reflexivity. Qed.

(* ---- classification by the single-threaded executor's run (Model/StRun.v, program generated from the
   source): a run whose task loop was cut short by a panic of model m returns Panic naming m (never
   "unprocessed messages", whatever is in flight), and the model ID of an enclosing simulation's handler survives a
   nested run (F7 is the refutation for the pinned tree, see C06.v) *)
Require Import NX.Model.StRun NX.gen.StRunProg NX.Proofs.StRunGen.

Theorem c11_strun_panic_is_reported_first :
  forall c0 i0 own d m,
    snd (sr_exec d (Some m) (sr_init c0 i0 own) strun_gen) = Some (SRPanic (Some m)) /\
    tl_id (fst (sr_exec d (Some m) (sr_init c0 i0 own) strun_gen)) = i0.
Proof.
  intros c0 i0 own d m. pose proof (strun_gen_spec c0 i0 own d (Some m)) as H.
  destruct (sr_exec d (Some m) (sr_init c0 i0 own) strun_gen) as [s r]. cbn [fst snd].
  destruct H as (_ & A & B & _). split; auto.
Qed.
Print Assumptions c11_strun_panic_is_reported_first.
