(* C08 — Scheduling requests are validated.  Statements only. *)
Require Import NX.Base.Prelude NX.Base.ListX NX.Model.PQ NX.Model.Sim.
Require Import NX.Proofs.SimBasic NX.Proofs.SimDriver NX.Proofs.SimQueue NX.Proofs.SimTop NX.Proofs.SimSched NX.Proofs.SimTerm NX.Proofs.SimComplete.

(* The answer to a scheduling request of any kind (Scheduler::schedule_*event,
   Context::schedule_*event, Scheduler::schedule of a pre-built action with the
   period check of the repaired tree): NullRepetitionPeriod (2) iff the period
   is null; otherwise InvalidScheduledTime (1) iff the deadline is not strictly
   after the current time; otherwise accepted (0).  A rejected request has no
   effect whatsoever. *)
Theorem c08_accept_iff :
  forall s origin d mk keyed period chk s' code k,
    sched_request s origin d mk keyed period chk = (s', code, k) ->
    code = (if chk && pzero period then 2%N
            else if Z.leb (dl_time d (now s)) (now s) then 1%N else 0%N) /\
    (code <> 0%N -> s' = s /\ k = None).
Proof. exact sched_request_code. Qed.
Print Assumptions c08_accept_iff.

(* An accepted request adds exactly one queue entry, at the resolved deadline
   (strictly in the future) and the requested origin, after all entries already
   there (its epoch is the next one); nothing else changes. *)
Theorem c08_accepted_effect :
  forall s origin d mk keyed period chk s' k,
    sched_request s origin d mk keyed period chk = (s', 0%N, k) ->
    let t := dl_time d (now s) in
    (t > now s)%Z /\
    items (queue s') = items (queue s) ++
       [{| ikey := (t, origin); iepoch := next_epoch (queue s);
           ival := {| aid := next_aid s; aop := mk k; akey := k; aperiod := period |} |}] /\
    now s' = now s /\ terminated s' = terminated s /\ boxes s' = boxes s /\ tasks s' = tasks s /\
    inflight s' = inflight s /\ err s' = err s /\ log s' = log s /\ sinks s' = sinks s /\
    clockpos s' = clockpos s /\
    (keyed = false -> k = None /\ cancelled s' = cancelled s) /\
    (keyed = true -> k = Some (length (cancelled s)) /\ cancelled s' = cancelled s ++ [false]).
Proof. exact sched_request_ok. Qed.
Print Assumptions c08_accepted_effect.

(* the two driver commands, with the period check that each performs *)
Theorem c08_driver_commands :
  forall b fuel s c ch s' r nd,
    is_sched_cmd c = true -> exec_cmd b fuel s c ch = (s', r, nd) ->
    exists d period chk,
      (match c with
       | CSchedEvent d' _ _ _ _ p => d = d' /\ period = p /\ chk = true
       | CSchedSrc d' _ _ _ p => d = d' /\ period = p /\ chk = negb (bugF4 b)
       | _ => False end) /\
      r = RSched (if chk && pzero period then 2%N
                  else if Z.leb (dl_time d (now s)) (now s) then 1%N else 0%N).
Proof. exact sched_cmd_answer. Qed.
Print Assumptions c08_driver_commands.

Theorem c08_rejected_no_effect :
  forall b fuel s c ch s' code nd,
    is_sched_cmd c = true ->
    exec_cmd b fuel s c ch = (s', RSched code, nd) -> code <> 0%N -> s' = s.
Proof. exact sched_error_unchanged. Qed.
Print Assumptions c08_rejected_no_effect.

(* An accepted request is never fired late or dropped: requests keep the queue
   invariant, every step of a run keeps it (handlers may schedule), and a
   stepping call that returns leaves nothing pending at or before its time. *)
Theorem c08_requests_keep_invariant :
  forall s origin d mk keyed period s' code k,
    q_inv s -> sched_request s origin d mk keyed period true = (s', code, k) -> q_inv s'.
Proof. exact sched_request_inv. Qed.
Print Assumptions c08_requests_keep_invariant.

Theorem c08_run_keeps_invariant :
  forall b s l s', q_inv s -> net_step b s l = Some s' -> q_inv s'.
Proof. exact net_step_inv. Qed.
Print Assumptions c08_run_keeps_invariant.

(* Every stepping call returns: from any state satisfying the two queue
   invariants (established by init and kept by every command) no command ever
   yields RHang - the critical section pulls each entry due now once, periods
   being positive - and the invariants are kept. *)
Theorem c08_step_returns :
  forall b fuel s c ch s' r nd,
    bugF4 b = false -> qwf s -> q_inv s -> exec_cmd b fuel s c ch = (s', r, nd) -> r <> RHang /\ qwf s'.
Proof. exact exec_cmd_returns. Qed.
Print Assumptions c08_step_returns.

(* Never silently dropped: an entry that is in the queue when the critical
   section of a step starts is, when it ends, still queued, or its key was
   cancelled, or it has been fired (its op is in one of the spawned groups). *)
Theorem c08_never_dropped :
  forall fuel s q bound cur group groups q' gs,
    pq_wf q -> q_from q (fst cur) -> (exists a0, pq_peek q = Some (cur, a0)) ->
    crit fuel s q bound cur group groups = Some (q', gs) ->
    forall y, In y (items q) ->
      In y (items q') \/ key_cancelled s (akey (ival y)) = true \/ In (aop (ival y)) (concat gs).
Proof. exact crit_complete. Qed.
Print Assumptions c08_never_dropped.

(* On the pinned tree (bugF4) a pre-built periodic action with a null period was
   accepted and the next step never returned: the model's critical section runs
   out of any fuel.  Witness computed by vm_compute; replayed on the
   implementation by corpus/C08. *)
Definition c08_src_bench (f4 : bool) : bench :=
  {| bmodels := [{| mcap := 4; mplace := Added; mparent := None; mnamed := true; minit := [];
                    mhandlers := [[]]; mrepliers := []; mouts := []; mreqs := [] |}];
     bsinks := []; bsources := [[{| ckeep := KAll; cadd := 0; ctgt := TgtModel 0 0 |}]];
     bclock := []; btol := None; bt0 := 0;
     bugF1 := false; bugF2 := false; bugF3 := false; bugF4 := f4 |}.
Example c08_zero_period_refuted_on_pinned_tree :
  map ores (sim_exec (c08_src_bench true) 300 [] [(CSchedSrc (DAbs 10) 0 5 None (Some 0%Z), []); (CStep, [])])
  = [ROk; RSched 0; RHang].
Proof. vm_compute. reflexivity. Qed.
Example c08_zero_period_rejected_after_fix :
  map ores (sim_exec (c08_src_bench false) 300 [] [(CSchedSrc (DAbs 10) 0 5 None (Some 0%Z), []); (CStep, [])])
  = [ROk; RSched 2; ROk].
Proof. vm_compute. reflexivity. Qed.
