#!/bin/bash
# Builds the whole framework offline from files on disk: Coq development (full .vo build),
# extracted OCaml runner, Rust harnesses (against /repo's current working tree).
set -e
cd "$(dirname "$0")"
export CARGO_NET_OFFLINE=true
python3 tools/gen_consts.py coq/gen/Consts.v > /dev/null
python3 tools/gen_synccell.py coq/gen/SyncCellProg.v > /dev/null
python3 tools/gen_pool.py coq/gen/PoolProg.v > /dev/null
python3 tools/gen_chan.py coq/gen/ChanProg.v > /dev/null
python3 tools/gen_strun.py coq/gen/StRunProg.v > /dev/null
python3 tools/gen_slot.py coq/gen/SlotProg.v > /dev/null
python3 tools/gen_seqfut.py coq/gen/SeqFutProg.v > /dev/null
( cd coq && coq_makefile -f _CoqProject -o Makefile > /dev/null && timeout 3000 make -j16 > ../.build_coq.log 2>&1 ) || { mkdir -p .build; tail -30 .build_coq.log; echo "setup: Coq build failed"; exit 1; }
mkdir -p .build && mv .build_coq.log .build/coq.log
python3 - <<'PY'
import sys, os
sys.path.insert(0, "tools")
import vlib
with vlib.BuildLock():
    vlib.ocaml_build()
    vlib.harness_build()
    # warm the Print Assumptions cache of every property file (the task-state ones take minutes)
    import json, threading
    pids = [c["property_id"] for c in json.load(open("MANIFEST.json"))["checks"]]
    def warm(p):
        try:
            vlib.prop_theorems(p)
        except Exception as e:
            print("warm", p, "failed:", e)
    ths = [threading.Thread(target=warm, args=(p,)) for p in pids]
    for t in ths: t.start()
    for t in ths: t.join()
print("setup ok")
PY
