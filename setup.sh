#!/bin/bash
# Builds the whole framework offline from files on disk: Coq development (full .vo build),
# extracted OCaml runner, Rust harnesses (against /repo's current working tree).
set -e
cd "$(dirname "$0")"
export CARGO_NET_OFFLINE=true
python3 tools/gen_consts.py coq/gen/Consts.v > /dev/null
( cd coq && coq_makefile -f _CoqProject -o Makefile > /dev/null && timeout 3000 make -j16 > ../.build_coq.log 2>&1 ) || { mkdir -p .build; tail -30 .build_coq.log; echo "setup: Coq build failed"; exit 1; }
mkdir -p .build && mv .build_coq.log .build/coq.log
python3 - <<'PY'
import sys, os
sys.path.insert(0, "tools")
import vlib
with vlib.BuildLock():
    vlib.ocaml_build()
    vlib.harness_build()
print("setup ok")
PY
