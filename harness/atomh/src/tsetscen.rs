//! Scenarios on the real TaskSet (mirrored util/task_set.rs over instrumented atomics) under the
//! deterministic scheduler: waker threads call wake_by_ref on task wakers, the owner takes,
//! iterates and drops.
//!
//! tsc <ntasks> W <i,i,..> [W <i,..>]* C <op,op,..> S <schedule...>
//!   consumer ops: t<k> take_scheduled(k) and iterate to the end | p<k>:<m> take, yield m items, drop the
//!   iterator | x discard_scheduled()
//! Output: "<verdict> | trace" with ghost events wake-begin/wake-end/take/yield/drop-iter/none.
use std::sync::Arc;

use diatomic_waker::WakeSink;

use crate::sched;
use crate::util::task_set::TaskSet;

pub(crate) fn run(w: &[&str]) -> String {
    let ntasks: usize = w[0].parse().unwrap();
    let spos = w.iter().position(|x| *x == "S").unwrap();
    let schedule: Vec<usize> = w[spos + 1..].iter().map(|x| x.parse().unwrap()).collect();
    let mut wake_lists: Vec<Vec<usize>> = Vec::new();
    let mut cons_ops: Vec<String> = Vec::new();
    let mut i = 1;
    while i < spos {
        match w[i] {
            "W" => {
                wake_lists.push(w[i + 1].split(',').filter(|x| !x.is_empty()).map(|x| x.parse().unwrap()).collect());
                i += 2;
            }
            "C" => {
                cons_ops = w[i + 1].split(',').filter(|x| !x.is_empty()).map(|x| x.to_string()).collect();
                i += 2;
            }
            _ => panic!("bad token"),
        }
    }
    let sink = WakeSink::new();
    let set = Arc::new(TaskSet::with_len(sink.source(), ntasks));
    let mut threads: Vec<Box<dyn FnOnce() + Send>> = Vec::new();
    // thread 0: the owner
    {
        let set = set.clone();
        threads.push(Box::new(move || {
            for op in cons_ops {
                if op == "x" {
                    sched::ghost("discard");
                    set.discard_scheduled();
                    sched::ghost("discard-end");
                    continue;
                }
                let (k, m): (usize, Option<usize>) = if let Some(r) = op.strip_prefix('t') {
                    (r.parse().unwrap(), None)
                } else {
                    let r = op.strip_prefix('p').unwrap();
                    let f: Vec<&str> = r.split(':').collect();
                    (f[0].parse().unwrap(), Some(f[1].parse().unwrap()))
                };
                sched::ghost(format!("take {}", k));
                match set.take_scheduled(k) {
                    None => sched::ghost("none"),
                    Some(mut it) => {
                        let mut n = 0;
                        loop {
                            if let Some(mx) = m {
                                if n >= mx {
                                    break;
                                }
                            }
                            match it.next() {
                                Some(idx) => {
                                    sched::ghost(format!("yield {}", idx));
                                    n += 1;
                                }
                                None => break,
                            }
                        }
                        sched::ghost("drop-iter");
                        drop(it);
                        sched::ghost("iter-end");
                    }
                }
            }
        }));
    }
    for l in wake_lists {
        let set = set.clone();
        threads.push(Box::new(move || {
            for idx in l {
                sched::ghost(format!("wake-begin {}", idx));
                set.waker_of(idx).wake_by_ref();
                sched::ghost("wake-end");
            }
        }));
    }
    let r = sched::run(threads, &schedule, 4000);
    let mut verdict = Vec::new();
    if r.budget_exceeded {
        verdict.push("BUDGET".to_string());
    }
    if r.deadlock {
        verdict.push("STUCK".to_string());
    }
    for (t, m) in &r.panics {
        verdict.push(format!("PANIC-t{}-{}", t, m.replace(' ', "_")));
    }
    // oracle (from the contract of TaskSet): after everything has run, one more take yields exactly the
    // tasks woken since they were last yielded or discarded - checked by the replay in the model; here:
    // every index yielded is a valid task index, no index is yielded twice by one iteration
    let mut cur: Vec<usize> = Vec::new();
    for e in sched::render(&r.trace) {
        let f: Vec<&str> = e.split_whitespace().collect();
        if f.len() >= 3 && f[1] == "ghost" {
            if f[2] == "take" {
                cur.clear();
            } else if f[2] == "yield" {
                let idx: usize = f[3].parse().unwrap();
                if idx >= ntasks {
                    verdict.push(format!("YIELD-OUT-OF-RANGE-{}", idx));
                }
                if cur.contains(&idx) {
                    verdict.push(format!("YIELDED-TWICE-{}", idx));
                }
                cur.push(idx);
            }
        }
    }
    verdict.sort();
    verdict.dedup();
    let v = if verdict.is_empty() { "OK".to_string() } else { verdict.join(",") };
    format!("{} | {}", v, sched::render(&r.trace).join(" ; "))
}
