//! Deterministic scheduler and instrumented synchronisation primitives.
//!
//! Virtual threads are OS threads of which exactly one runs at a time.  Every
//! instrumented operation (atomic load/store/RMW/CAS attempt, fence, mutex
//! acquisition) is a *step point*: the thread announces the pending
//! operation, blocks until the controller grants it the baton, performs the
//! real operation and records `(thread, location, kind, ordering, value read,
//! value written)`.  The execution is therefore the sequentially consistent
//! interleaving dictated by the schedule, over the unmodified source files.
//!
//! Outside a controlled run (`VT == NONE`) every primitive behaves exactly
//! like its std counterpart and records nothing.

use std::cell::Cell;
use std::collections::HashMap;
use std::ops::{Deref, DerefMut};
use std::sync::atomic::{self as sa, Ordering};
use std::sync::{Condvar, LockResult, Mutex as StdMutex};

const NONE: usize = usize::MAX;

thread_local! {
    static VT: Cell<usize> = const { Cell::new(NONE) };
}

pub fn current_vt() -> Option<usize> {
    let v = VT.with(|c| c.get());
    if v == NONE {
        None
    } else {
        Some(v)
    }
}

#[derive(Clone, Debug, PartialEq)]
pub enum Event {
    /// An atomic operation on a location.
    Atomic {
        th: usize,
        kind: &'static str,
        ord: &'static str,
        addr: usize,
        rd: u64,
        wr: u64,
    },
    Fence {
        th: usize,
        ord: &'static str,
    },
    Lock {
        th: usize,
        addr: usize,
    },
    Unlock {
        th: usize,
        addr: usize,
    },
    /// Non-atomic access to an `UnsafeCell` (ghost).
    Cell {
        th: usize,
        addr: usize,
        write: bool,
    },
    /// Scenario-level ghost event (return values, poll begin/end, drops ...).
    Ghost {
        th: usize,
        what: String,
    },
}

#[derive(Clone, Copy, PartialEq, Debug)]
enum Status {
    NotStarted,
    Running,
    AtPoint { lock_addr: usize }, // lock_addr == 0: always enabled
    Finished,
}

struct Ctl {
    active: bool,
    status: Vec<Status>,
    granted: usize,
    trace: Vec<Event>,
    locks: Vec<(usize, bool)>,
    free_run: bool,
}

static CTL: StdMutex<Ctl> = StdMutex::new(Ctl {
    active: false,
    status: Vec::new(),
    granted: NONE,
    trace: Vec::new(),
    locks: Vec::new(),
    free_run: false,
});
static CV: Condvar = Condvar::new();

fn set_lock(locks: &mut Vec<(usize, bool)>, addr: usize, held: bool) {
    for e in locks.iter_mut() {
        if e.0 == addr {
            e.1 = held;
            return;
        }
    }
    locks.push((addr, held));
}

fn ord_name(o: Ordering) -> &'static str {
    match o {
        Ordering::Relaxed => "rlx",
        Ordering::Acquire => "acq",
        Ordering::Release => "rel",
        Ordering::AcqRel => "acqrel",
        Ordering::SeqCst => "sc",
        _ => "?",
    }
}

/// Blocks the calling virtual thread until the controller grants it a step.
fn enter(lock_addr: usize) {
    let me = match current_vt() {
        Some(v) => v,
        None => return,
    };
    let mut c = CTL.lock().unwrap();
    if !c.active || c.free_run {
        return;
    }
    c.status[me] = Status::AtPoint { lock_addr };
    CV.notify_all();
    while c.granted != me && !c.free_run {
        c = CV.wait(c).unwrap();
    }
    if c.granted == me {
        c.granted = NONE;
    }
    c.status[me] = Status::Running;
}

fn record(ev: Event) {
    if current_vt().is_none() {
        return;
    }
    let mut c = CTL.lock().unwrap();
    if c.active {
        c.trace.push(ev);
    }
}

pub fn ghost(what: impl Into<String>) {
    if let Some(th) = current_vt() {
        record(Event::Ghost {
            th,
            what: what.into(),
        });
    }
}

pub fn cell_access(addr: usize, write: bool) {
    if let Some(th) = current_vt() {
        check_freed(addr);
        record(Event::Cell { th, addr, write });
    }
}

// ---- allocation tracking (lock-free: called from the global allocator) ----------------------
static TRACK_ALLOCS: sa::AtomicBool = sa::AtomicBool::new(false);
static ALLOC_SLOTS: [(sa::AtomicUsize, sa::AtomicUsize); 32] =
    [const { (sa::AtomicUsize::new(0), sa::AtomicUsize::new(0)) }; 32];
static ALLOC_N: sa::AtomicUsize = sa::AtomicUsize::new(0);
static WATCH_PTR: sa::AtomicUsize = sa::AtomicUsize::new(0);
static WATCH_SIZE: sa::AtomicUsize = sa::AtomicUsize::new(0);
static DEALLOCS: sa::AtomicUsize = sa::AtomicUsize::new(0);
static UAF: sa::AtomicUsize = sa::AtomicUsize::new(0);

/// Starts recording allocations (used around `task::spawn` to find the task's heap block).
pub fn record_allocs(on: bool) {
    if on {
        ALLOC_N.store(0, Ordering::SeqCst);
    }
    TRACK_ALLOCS.store(on, Ordering::SeqCst);
}
pub fn on_alloc(ptr: usize, size: usize) {
    if TRACK_ALLOCS.load(Ordering::Relaxed) {
        let i = ALLOC_N.fetch_add(1, Ordering::SeqCst);
        if i < ALLOC_SLOTS.len() {
            ALLOC_SLOTS[i].0.store(ptr, Ordering::SeqCst);
            ALLOC_SLOTS[i].1.store(size, Ordering::SeqCst);
        }
    }
}
/// Watches the largest block allocated since `record_allocs(true)`: its deallocation is counted and
/// the block is quarantined (never returned to the system), later accesses are counted.
pub fn watch_largest_recorded() {
    let n = ALLOC_N.load(Ordering::SeqCst).min(ALLOC_SLOTS.len());
    let mut best = (0usize, 0usize);
    for i in 0..n {
        let (p, sz) = (ALLOC_SLOTS[i].0.load(Ordering::SeqCst), ALLOC_SLOTS[i].1.load(Ordering::SeqCst));
        if sz > best.1 {
            best = (p, sz);
        }
    }
    WATCH_PTR.store(best.0, Ordering::SeqCst);
    WATCH_SIZE.store(best.1, Ordering::SeqCst);
    DEALLOCS.store(0, Ordering::SeqCst);
    UAF.store(0, Ordering::SeqCst);
}
/// Returns true if the block must be quarantined instead of freed.
pub fn on_dealloc(ptr: usize, _size: usize) -> bool {
    let w = WATCH_PTR.load(Ordering::Relaxed);
    if w != 0 && ptr == w {
        DEALLOCS.fetch_add(1, Ordering::SeqCst);
        // only the watched block gets here, and never from inside `record` (which frees nothing
        // that is watched), so recording from the allocator hook cannot re-enter the trace lock
        ghost("dealloc");
        return true;
    }
    false
}
fn check_freed(addr: usize) {
    let w = WATCH_PTR.load(Ordering::Relaxed);
    if w != 0 && DEALLOCS.load(Ordering::Relaxed) > 0 && addr >= w && addr < w + WATCH_SIZE.load(Ordering::Relaxed) {
        UAF.fetch_add(1, Ordering::SeqCst);
    }
}
/// (deallocations of the watched block, accesses after its deallocation, double free?)
pub fn dealloc_stats() -> (usize, usize, usize) {
    let d = DEALLOCS.load(Ordering::SeqCst);
    let r = (d, UAF.load(Ordering::SeqCst), if d > 1 { 1 } else { 0 });
    WATCH_PTR.store(0, Ordering::SeqCst);
    r
}

macro_rules! instrumented_atomic {
    ($name:ident, $std:ty, $prim:ty) => {
        #[derive(Debug)]
        pub struct $name($std);

        #[allow(dead_code)]
        impl $name {
            pub const fn new(v: $prim) -> Self {
                Self(<$std>::new(v))
            }
            fn addr(&self) -> usize {
                &self.0 as *const _ as usize
            }
            pub fn into_inner(self) -> $prim {
                self.0.into_inner()
            }
            pub fn get_mut(&mut self) -> &mut $prim {
                self.0.get_mut()
            }
            fn op(
                &self,
                kind: &'static str,
                ord: Ordering,
                f: impl FnOnce(&$std) -> ($prim, $prim),
            ) -> $prim {
                if let Some(th) = current_vt() {
                    enter(0);
                    check_freed(self.addr());
                    let (rd, wr) = f(&self.0);
                    record(Event::Atomic {
                        th,
                        kind,
                        ord: ord_name(ord),
                        addr: self.addr(),
                        rd: rd as u64,
                        wr: wr as u64,
                    });
                    rd
                } else {
                    check_freed(self.addr());
                    f(&self.0).0
                }
            }
            pub fn load(&self, o: Ordering) -> $prim {
                self.op("load", o, |a| {
                    let v = a.load(o);
                    (v, v)
                })
            }
            pub fn store(&self, v: $prim, o: Ordering) {
                self.op("store", o, |a| {
                    let old = a.load(Ordering::Relaxed);
                    a.store(v, o);
                    (old, v)
                });
            }
            pub fn swap(&self, v: $prim, o: Ordering) -> $prim {
                self.op("swap", o, |a| (a.swap(v, o), v))
            }
            pub fn fetch_add(&self, v: $prim, o: Ordering) -> $prim {
                self.op("fetch_add", o, |a| {
                    let r = a.fetch_add(v, o);
                    (r, r.wrapping_add(v))
                })
            }
            pub fn fetch_sub(&self, v: $prim, o: Ordering) -> $prim {
                self.op("fetch_sub", o, |a| {
                    let r = a.fetch_sub(v, o);
                    (r, r.wrapping_sub(v))
                })
            }
            pub fn fetch_or(&self, v: $prim, o: Ordering) -> $prim {
                self.op("fetch_or", o, |a| {
                    let r = a.fetch_or(v, o);
                    (r, r | v)
                })
            }
            pub fn fetch_and(&self, v: $prim, o: Ordering) -> $prim {
                self.op("fetch_and", o, |a| {
                    let r = a.fetch_and(v, o);
                    (r, r & v)
                })
            }
            pub fn compare_exchange(
                &self,
                cur: $prim,
                new: $prim,
                s: Ordering,
                f: Ordering,
            ) -> Result<$prim, $prim> {
                let mut res = Ok(cur);
                self.op("cas", s, |a| {
                    res = a.compare_exchange(cur, new, s, f);
                    match res {
                        Ok(v) => (v, new),
                        Err(v) => (v, v),
                    }
                });
                res
            }
            pub fn compare_exchange_weak(
                &self,
                cur: $prim,
                new: $prim,
                s: Ordering,
                f: Ordering,
            ) -> Result<$prim, $prim> {
                // Never fails spuriously (as on x86); the Coq model allows it.
                self.compare_exchange(cur, new, s, f)
            }
            /// Same shape as std's: a load, then one CAS attempt per iteration.
            pub fn fetch_update<F>(
                &self,
                set_order: Ordering,
                fetch_order: Ordering,
                mut f: F,
            ) -> Result<$prim, $prim>
            where
                F: FnMut($prim) -> Option<$prim>,
            {
                let mut prev = self.load(fetch_order);
                while let Some(next) = f(prev) {
                    match self.compare_exchange_weak(prev, next, set_order, fetch_order) {
                        x @ Ok(_) => return x,
                        Err(next_prev) => prev = next_prev,
                    }
                }
                Err(prev)
            }
        }
    };
}

instrumented_atomic!(AtomicUsize, sa::AtomicUsize, usize);
instrumented_atomic!(AtomicU64, sa::AtomicU64, u64);
instrumented_atomic!(AtomicU32, sa::AtomicU32, u32);
pub use std::sync::atomic::AtomicBool;

pub fn fence(o: Ordering) {
    if let Some(th) = current_vt() {
        enter(0);
        sa::fence(o);
        record(Event::Fence {
            th,
            ord: ord_name(o),
        });
    } else {
        sa::fence(o);
    }
}

// ---------------------------------------------------------------------------
// Scheduler-aware mutex.

pub struct Mutex<T> {
    inner: StdMutex<T>,
}

pub struct MutexGuard<'a, T> {
    guard: Option<std::sync::MutexGuard<'a, T>>,
    addr: usize,
}

impl<T: Default> Default for Mutex<T> {
    fn default() -> Self {
        Self::new(T::default())
    }
}

impl<T> Mutex<T> {
    pub fn new(t: T) -> Self {
        Self {
            inner: StdMutex::new(t),
        }
    }
    fn addr(&self) -> usize {
        &self.inner as *const _ as usize
    }
    pub fn lock(&self) -> LockResult<MutexGuard<'_, T>> {
        if let Some(th) = current_vt() {
            let addr = self.addr();
            enter(addr);
            {
                let mut c = CTL.lock().unwrap();
                if c.active {
                    set_lock(&mut c.locks, addr, true);
                    c.trace.push(Event::Lock { th, addr });
                }
            }
            let g = self.inner.lock().unwrap();
            Ok(MutexGuard {
                guard: Some(g),
                addr,
            })
        } else {
            let g = self.inner.lock().unwrap();
            Ok(MutexGuard {
                guard: Some(g),
                addr: 0,
            })
        }
    }
}

impl<T> Drop for MutexGuard<'_, T> {
    fn drop(&mut self) {
        self.guard.take();
        if self.addr != 0 {
            if let Some(th) = current_vt() {
                let mut c = CTL.lock().unwrap();
                if c.active {
                    set_lock(&mut c.locks, self.addr, false);
                    c.trace.push(Event::Unlock {
                        th,
                        addr: self.addr,
                    });
                }
            }
        }
    }
}

impl<T> Deref for MutexGuard<'_, T> {
    type Target = T;
    fn deref(&self) -> &T {
        self.guard.as_ref().unwrap()
    }
}
impl<T> DerefMut for MutexGuard<'_, T> {
    fn deref_mut(&mut self) -> &mut T {
        self.guard.as_mut().unwrap()
    }
}

// ---------------------------------------------------------------------------
// Controller.

pub struct RunResult {
    pub trace: Vec<Event>,
    /// Thread chosen at each decision (after skipping disabled entries).
    pub decisions: Vec<usize>,
    pub steps: usize,
    pub budget_exceeded: bool,
    pub deadlock: bool,
    pub panics: Vec<(usize, String)>,
}

/// Runs the closures as virtual threads under `schedule` (a list of thread
/// ids; an entry naming a thread that is finished or blocked is skipped).
/// When the schedule is exhausted the remaining steps are scheduled
/// round-robin.  At most `budget` steps are granted; beyond that the run is
/// released (threads run freely to completion) and flagged.
pub fn run(
    threads: Vec<Box<dyn FnOnce() + Send + 'static>>,
    schedule: &[usize],
    budget: usize,
) -> RunResult {
    let n = threads.len();
    {
        let mut c = CTL.lock().unwrap();
        assert!(!c.active, "nested controlled run");
        c.active = true;
        c.status = vec![Status::NotStarted; n];
        c.granted = NONE;
        c.trace.clear();
        c.locks.clear();
        c.free_run = false;
    }
    let mut handles = Vec::new();
    for (i, f) in threads.into_iter().enumerate() {
        let h = std::thread::Builder::new()
            .name(format!("vt{}", i))
            .spawn(move || {
                VT.with(|c| c.set(i));
                // Start is a hidden step: wait for the controller.
                enter(0);
                let r = std::panic::catch_unwind(std::panic::AssertUnwindSafe(f));
                let msg = match r {
                    Ok(()) => None,
                    Err(p) => Some(if let Some(s) = p.downcast_ref::<&str>() {
                        s.to_string()
                    } else if let Some(s) = p.downcast_ref::<String>() {
                        s.clone()
                    } else {
                        "panic".to_string()
                    }),
                };
                let mut c = CTL.lock().unwrap();
                c.status[i] = Status::Finished;
                CV.notify_all();
                drop(c);
                VT.with(|c| c.set(NONE));
                msg
            })
            .unwrap();
        handles.push(h);
    }

    let mut decisions = Vec::new();
    let mut steps = 0usize;
    let mut sched_pos = 0usize;
    let mut rr_last = n - 1;
    let mut budget_exceeded = false;
    let mut deadlock = false;
    let mut started = 0usize;
    loop {
        let mut c = CTL.lock().unwrap();
        while c.granted != NONE
            || c
                .status
                .iter()
                .any(|s| matches!(s, Status::Running | Status::NotStarted))
        {
            c = CV.wait(c).unwrap();
        }
        // Hidden start steps, in thread-id order: each thread runs up to its
        // first step point.
        if started < n {
            c.granted = started;
            started += 1;
            CV.notify_all();
            continue;
        }
        let enabled: Vec<usize> = (0..n)
            .filter(|&t| match c.status[t] {
                Status::AtPoint { lock_addr } => {
                    lock_addr == 0 || !c.locks.iter().any(|&(a, h)| a == lock_addr && h)
                }
                _ => false,
            })
            .collect();
        if enabled.is_empty() {
            if c.status.iter().all(|s| *s == Status::Finished) {
                break;
            }
            deadlock = true;
            c.free_run = true;
            CV.notify_all();
            break;
        }
        if steps >= budget {
            budget_exceeded = true;
            c.free_run = true;
            CV.notify_all();
            break;
        }
        let mut pick = None;
        while sched_pos < schedule.len() {
            let t = schedule[sched_pos];
            sched_pos += 1;
            if enabled.contains(&t) {
                pick = Some(t);
                break;
            }
        }
        let t = match pick {
            Some(t) => t,
            None => {
                // round robin
                let mut t = (rr_last + 1) % n;
                while !enabled.contains(&t) {
                    t = (t + 1) % n;
                }
                t
            }
        };
        rr_last = t;
        decisions.push(t);
        steps += 1;
        c.granted = t;
        CV.notify_all();
    }
    let mut panics = Vec::new();
    if !deadlock {
        for (i, h) in handles.into_iter().enumerate() {
            if let Ok(Some(m)) = h.join() {
                panics.push((i, m));
            }
        }
    }
    let mut c = CTL.lock().unwrap();
    c.active = false;
    let trace = std::mem::take(&mut c.trace);
    RunResult {
        trace,
        decisions,
        steps,
        budget_exceeded,
        deadlock,
        panics,
    }
}

/// Renders a trace with addresses renamed to dense ids in order of first
/// appearance (so that two runs with different allocations compare equal).
pub fn render(trace: &[Event]) -> Vec<String> {
    let mut ids: HashMap<usize, usize> = HashMap::new();
    let mut id = |a: usize| -> usize {
        let n = ids.len();
        *ids.entry(a).or_insert(n)
    };
    trace
        .iter()
        .map(|e| match e {
            Event::Atomic {
                th,
                kind,
                ord,
                addr,
                rd,
                wr,
            } => format!("t{} {} {} L{} {} {}", th, kind, ord, id(*addr), rd, wr),
            Event::Fence { th, ord } => format!("t{} fence {}", th, ord),
            Event::Lock { th, addr } => format!("t{} lock M{}", th, id(*addr)),
            Event::Unlock { th, addr } => format!("t{} unlock M{}", th, id(*addr)),
            Event::Cell { th, addr, write } => {
                format!("t{} cell{} C{}", th, if *write { "W" } else { "R" }, id(*addr))
            }
            Event::Ghost { th, what } => format!("t{} ghost {}", th, what),
        })
        .collect()
}
