//! Operation-sequence runner (correspondence kind T2.1): applies the op list
//! of a case to the real container and prints every return value.

use crate::util::indexed_priority_queue::{IndexedPriorityQueue, InsertKey};
use crate::util::priority_queue::PriorityQueue;

fn words(s: &str) -> Vec<&str> {
    s.split_whitespace().collect()
}

fn run_pq(ops: &[&str]) -> String {
    let mut q: PriorityQueue<(i64, usize), i64> = PriorityQueue::new();
    let mut out = Vec::new();
    for op in ops {
        let f: Vec<&str> = op.split(',').collect();
        match f[0] {
            "i" => {
                q.insert((f[1].parse().unwrap(), f[2].parse().unwrap()), f[3].parse().unwrap());
                out.push("u".to_string());
            }
            "p" => out.push(match q.pull() {
                None => "n".to_string(),
                Some(((t, o), v)) => format!("s,{},{},{}", t, o, v),
            }),
            "k" => out.push(match q.peek() {
                None => "n".to_string(),
                Some((&(t, o), &v)) => format!("s,{},{},{}", t, o, v),
            }),
            _ => panic!("bad op"),
        }
    }
    out.join(" ")
}

/// ipq ops: i,<t>,<o>,<v> insert (result: the issued key index, dense);
/// p pull; k peek; K peek_key; x,<n> extract the n-th issued key; l len.
fn run_ipq(ops: &[&str]) -> String {
    let mut q: IndexedPriorityQueue<(i64, usize), i64> = IndexedPriorityQueue::new();
    let mut keys: Vec<InsertKey> = Vec::new();
    let mut out = Vec::new();
    for op in ops {
        let f: Vec<&str> = op.split(',').collect();
        match f[0] {
            "i" => {
                let k = q.insert((f[1].parse().unwrap(), f[2].parse().unwrap()), f[3].parse().unwrap());
                keys.push(k);
                out.push("u".to_string());
            }
            "p" => out.push(match q.pull() {
                None => "n".to_string(),
                Some(((t, o), v)) => format!("s,{},{},{}", t, o, v),
            }),
            "k" => out.push(match q.peek() {
                None => "n".to_string(),
                Some((&(t, o), &v)) => format!("s,{},{},{}", t, o, v),
            }),
            "K" => out.push(match q.peek_key() {
                None => "n".to_string(),
                Some(&(t, o)) => format!("s,{},{}", t, o),
            }),
            "x" => {
                let n: usize = f[1].parse().unwrap();
                if n >= keys.len() {
                    out.push("n".to_string());
                } else {
                    out.push(match q.extract(keys[n]) {
                        None => "n".to_string(),
                        Some(((t, o), v)) => format!("s,{},{},{}", t, o, v),
                    });
                }
            }
            "l" => out.push(format!("l,{}", q.len())),
            _ => panic!("bad op"),
        }
    }
    out.join(" ")
}

/// crw ops: c,<i> clone | w,<i>,<x> write (push x on the shared list) | s,<i>,<x> write_scratchpad
/// (push x on the local cache, print it) | r,<i> read
fn run_crw(ops: &[&str]) -> String {
    use crate::util::cached_rw_lock::CachedRwLock;
    let mut clones: Vec<CachedRwLock<Vec<usize>>> = vec![CachedRwLock::new(Vec::new())];
    let show = |v: &Vec<usize>| if v.is_empty() { "-".to_string() } else { v.iter().map(|x| x.to_string()).collect::<Vec<_>>().join(".") };
    let mut out = Vec::new();
    for op in ops {
        let f: Vec<&str> = op.split(',').collect();
        let i: usize = f[1].parse().unwrap();
        if i >= clones.len() {
            out.push("-".to_string());
            continue;
        }
        match f[0] {
            "c" => {
                let c = clones[i].clone();
                clones.push(c);
                out.push("-".to_string());
            }
            "w" => {
                clones[i].write().unwrap().push(f[2].parse().unwrap());
                out.push("-".to_string());
            }
            "s" => {
                let v = clones[i].write_scratchpad().unwrap();
                v.push(f[2].parse().unwrap());
                out.push(show(v));
            }
            "r" => {
                let v = clones[i].read().unwrap().clone();
                out.push(show(&v));
            }
            _ => panic!("bad op"),
        }
    }
    out.join(" ")
}

pub fn run_case(line: &str) -> String {
    let w = words(line);
    if w.is_empty() {
        return String::new();
    }
    match w[0] {
        "pq" => run_pq(&w[1..]),
        "ipq" => run_ipq(&w[1..]),
        "crw" => run_crw(&w[1..]),
        "sl" => crate::slscen::run(&w[1..]),
        "task" => crate::tscen::run(&w[1..]),
        "q" => crate::channel::qscen::run_seq(&w[1..]),
        "qc" => crate::channel::qscen::run_conc(&w[1..]),
        "bs" => crate::ports::output::bscen::run(&w[1..]),
        "tsc" => crate::tsetscen::run(&w[1..]),
        "inj" => run_inj(&w[1..]),
        "sqf" => run_sqf(&w[1..]),
        "aes" => crate::aescen::run(&w[1..]),
        "slt" => crate::slotscen::run(&w[1..]),
        "dws" => crate::dwscen::run(&w[1..]),
        k => format!("ERR unknown-kind {}", k),
    }
}


/// Operation sequences on the verbatim executor/mt_executor/injector.rs (bucket capacity 1..4 or 128):
/// i<v> insert_task, b<v.v.v> push_bucket(Bucket::from_iter), p pop_bucket, e is_empty.
fn run_inj(w: &[&str]) -> String {
    use crate::executor::mt_executor::injector::{Bucket, Injector};
    fn go<const N: usize>(ops: &[&str]) -> String {
        let q: Injector<i64, N> = Injector::new();
        let mut out = Vec::new();
        for o in ops {
            let (k, rest) = o.split_at(1);
            match k {
                "i" => {
                    q.insert_task(rest.parse().unwrap());
                    out.push("u".to_string());
                }
                "b" => {
                    let v: Vec<i64> = rest.split('.').filter(|x| !x.is_empty()).map(|x| x.parse().unwrap()).collect();
                    q.push_bucket(Bucket::<i64, N>::from_iter(v));
                    out.push("u".to_string());
                }
                "p" => match q.pop_bucket() {
                    None => out.push("-".to_string()),
                    Some(b) => {
                        let v: Vec<String> = b.into_iter().map(|x| x.to_string()).collect();
                        out.push(format!("[{}]", v.join(".")));
                    }
                },
                "e" => out.push(if q.is_empty() { "1".into() } else { "0".into() }),
                _ => panic!("inj op {}", o),
            }
        }
        out.join(" ")
    }
    let cap: usize = w[0].parse().unwrap();
    match cap {
        1 => go::<1>(&w[1..]),
        2 => go::<2>(&w[1..]),
        3 => go::<3>(&w[1..]),
        4 => go::<4>(&w[1..]),
        _ => go::<128>(&w[1..]),
    }
}


/// The verbatim util/seq_futures.rs over scripted sub-futures: `sqf k0 k1 ...` - sub-future i answers Pending
/// k_i times (waking its waker each time), then Ready; a poll after Ready is recorded as a fault.  The SeqFuture
/// is polled until it is Ready, at most sum(k) + 1 times.  Output:
/// "<ready 0|1> <ready before the last allowed poll 0|1> <sub-polls i.i.i> <fault 0|1> <out-of-bounds panic 0|1>".
fn run_sqf(w: &[&str]) -> String {
    use crate::util::seq_futures::SeqFuture;
    use std::cell::{Cell, RefCell};
    use std::future::Future;
    use std::pin::Pin;
    use std::rc::Rc;
    use std::sync::Arc;
    use std::task::{Context, Poll, Wake, Waker};
    struct Nop;
    impl Wake for Nop {
        fn wake(self: Arc<Self>) {}
    }
    struct Scripted {
        id: usize,
        remaining: usize,
        done: bool,
        trace: Rc<RefCell<Vec<usize>>>,
        bad: Rc<Cell<bool>>,
    }
    impl Future for Scripted {
        type Output = ();
        fn poll(mut self: Pin<&mut Self>, cx: &mut Context<'_>) -> Poll<()> {
            self.trace.borrow_mut().push(self.id);
            if self.done {
                self.bad.set(true);
                return Poll::Ready(());
            }
            if self.remaining > 0 {
                self.remaining -= 1;
                cx.waker().wake_by_ref();
                Poll::Pending
            } else {
                self.done = true;
                Poll::Ready(())
            }
        }
    }
    let ks: Vec<usize> = w.iter().map(|x| x.parse().unwrap()).collect();
    let total: usize = ks.iter().sum();
    let trace = Rc::new(RefCell::new(Vec::new()));
    let bad = Rc::new(Cell::new(false));
    let mut f: SeqFuture<Scripted> = SeqFuture::new();
    for (i, k) in ks.iter().enumerate() {
        f.push(Scripted { id: i, remaining: *k, done: false, trace: trace.clone(), bad: bad.clone() });
    }
    let waker = Waker::from(Arc::new(Nop));
    let mut cx = Context::from_waker(&waker);
    let (mut ready_at, mut oob) = (None, false);
    let hook = std::panic::take_hook();
    std::panic::set_hook(Box::new(|_| {}));
    for n in 1..=total + 1 {
        let r = std::panic::catch_unwind(std::panic::AssertUnwindSafe(|| Pin::new(&mut f).poll(&mut cx)));
        match r {
            Ok(Poll::Ready(())) => {
                ready_at = Some(n);
                break;
            }
            Ok(Poll::Pending) => {}
            Err(_) => {
                oob = true;
                break;
            }
        }
    }
    std::panic::set_hook(hook);
    let tr: Vec<String> = trace.borrow().iter().map(|x| x.to_string()).collect();
    format!(
        "{} {} {} {} {}",
        ready_at.is_some() as u8,
        matches!(ready_at, Some(n) if n <= total) as u8,
        tr.join("."),
        bad.get() as u8,
        oob as u8
    )
}
