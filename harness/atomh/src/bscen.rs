//! Scenarios on the real broadcaster (mirrored ports/output/broadcaster.rs, with the real
//! util/task_set.rs and diatomic-waker): a QueryBroadcaster over scripted senders, driven
//! sequentially.  Lives in `crate::ports::output` (via #[path]) because the API is pub(super).
//!
//! bs <n> ops...
//!   Q:<bits>:<m>   start query number q (drops a pending one): sender i accepts iff bits[i] == '1';
//!                  when the broadcast completes, m replies are taken from the reply iterator
//!                  (m = a: all), the iterator is then dropped
//!   S:<i>.<k>:<a>+<a>..  script of sender i's sub-future: actions performed INSIDE its k-th poll
//!   p              poll the broadcast future once     -> P[<sub-futures polled, in order>]=pend|err|ok:<replies>
//!   c<j> e<j> w<j> (outside a poll) complete / fail / spuriously wake sub-future j   -> -
//!   d              drop the broadcast future          -> D
//!   N              wake-ups of the parent since the last N                            -> N<k>
//! actions <a>: c<j> e<j> w<j>.  The reply of sender j to query q is 1000*q + j.
use std::collections::HashMap;
use std::future::Future;
use std::pin::Pin;
use std::sync::atomic::{AtomicUsize, Ordering as O};
use std::sync::{Arc, Mutex};
use std::task::{Context, Poll, Wake, Waker};

use recycle_box::RecycleBox;

use super::broadcaster::QueryBroadcaster;
use super::sender::{RecycledFuture, Sender};
use crate::channel::SendError;

#[derive(Clone, Copy)]
enum Act {
    Complete(usize),
    Error(usize),
    Wake(usize),
}

struct Ctl {
    qno: i64,
    avail: Vec<Option<Result<i64, SendError>>>,
    wakers: Vec<Option<Waker>>,
    polls: Vec<usize>,
    script: HashMap<(usize, usize), Vec<Act>>,
    filter: Vec<bool>,
    sublog: Vec<usize>,
}

fn do_act(ctl: &Arc<Mutex<Ctl>>, a: Act) {
    let w = {
        let mut c = ctl.lock().unwrap();
        match a {
            Act::Complete(j) => {
                let v = c.qno * 1000 + j as i64;
                c.avail[j] = Some(Ok(v));
                c.wakers[j].take()
            }
            Act::Error(j) => {
                c.avail[j] = Some(Err(SendError));
                c.wakers[j].take()
            }
            Act::Wake(j) => c.wakers[j].clone(),
        }
    };
    if let Some(w) = w {
        w.wake();
    }
}

struct SubFut {
    idx: usize,
    ctl: Arc<Mutex<Ctl>>,
}
impl Future for SubFut {
    type Output = Result<i64, SendError>;
    fn poll(self: Pin<&mut Self>, cx: &mut Context<'_>) -> Poll<Self::Output> {
        let acts = {
            let mut c = self.ctl.lock().unwrap();
            c.sublog.push(self.idx);
            let k = c.polls[self.idx];
            c.polls[self.idx] += 1;
            c.script.get(&(self.idx, k)).cloned().unwrap_or_default()
        };
        for a in acts {
            do_act(&self.ctl, a);
        }
        let mut c = self.ctl.lock().unwrap();
        match c.avail[self.idx] {
            Some(r) => Poll::Ready(r),
            None => {
                c.wakers[self.idx] = Some(cx.waker().clone());
                Poll::Pending
            }
        }
    }
}

struct ScriptSender {
    idx: usize,
    ctl: Arc<Mutex<Ctl>>,
    storage: Option<RecycleBox<()>>,
}
impl Clone for ScriptSender {
    fn clone(&self) -> Self {
        ScriptSender {
            idx: self.idx,
            ctl: self.ctl.clone(),
            storage: None,
        }
    }
}
impl Sender<i64, i64> for ScriptSender {
    fn send(&mut self, _arg: &i64) -> Option<RecycledFuture<'_, Result<i64, SendError>>> {
        let accept = self.ctl.lock().unwrap().filter[self.idx];
        if !accept {
            return None;
        }
        let fut = SubFut {
            idx: self.idx,
            ctl: self.ctl.clone(),
        };
        Some(RecycledFuture::new(&mut self.storage, fut))
    }
}

struct ParentWaker(AtomicUsize);
impl Wake for ParentWaker {
    fn wake(self: Arc<Self>) {
        self.0.fetch_add(1, O::SeqCst);
    }
    fn wake_by_ref(self: &Arc<Self>) {
        self.0.fetch_add(1, O::SeqCst);
    }
}

fn parse_act(s: &str) -> Act {
    let j: usize = s[1..].parse().unwrap();
    match &s[..1] {
        "c" => Act::Complete(j),
        "e" => Act::Error(j),
        "w" => Act::Wake(j),
        _ => panic!("bad action {}", s),
    }
}

type Fut = Pin<Box<dyn Future<Output = Result<Vec<i64>, SendError>>>>;

pub(crate) fn run(w: &[&str]) -> String {
    let n: usize = w[0].parse().unwrap();
    let ctl = Arc::new(Mutex::new(Ctl {
        qno: 0,
        avail: vec![None; n],
        wakers: vec![None; n],
        polls: vec![0; n],
        script: HashMap::new(),
        filter: vec![true; n],
        sublog: Vec::new(),
    }));
    let mut b: Box<QueryBroadcaster<i64, i64>> = Box::new(QueryBroadcaster::default());
    for i in 0..n {
        b.add(Box::new(ScriptSender {
            idx: i,
            ctl: ctl.clone(),
            storage: None,
        }));
    }
    let bptr: *mut QueryBroadcaster<i64, i64> = Box::into_raw(b);
    let pw = Arc::new(ParentWaker(AtomicUsize::new(0)));
    let waker = Waker::from(pw.clone());
    let mut fut: Option<Fut> = None;
    let mut out: Vec<String> = Vec::new();
    let mut next_q: i64 = 0;
    for op in &w[1..] {
        if let Some(rest) = op.strip_prefix("Q:") {
            // only one borrow of the broadcaster at a time: the previous future goes first
            fut = None;
            let f: Vec<&str> = rest.split(':').collect();
            let bits: Vec<bool> = f[0].chars().map(|c| c == '1').collect();
            let m: Option<usize> = if f[1] == "a" { None } else { Some(f[1].parse().unwrap()) };
            next_q += 1;
            {
                let mut c = ctl.lock().unwrap();
                c.qno = next_q;
                c.filter = (0..n).map(|i| *bits.get(i).unwrap_or(&true)).collect();
                c.avail = vec![None; n];
                c.polls = vec![0; n];
                c.script.clear();
            }
            let q = next_q;
            // SAFETY: `fut` is dropped before the broadcaster is touched again or freed
            let br: &'static mut QueryBroadcaster<i64, i64> = unsafe { &mut *bptr };
            fut = Some(Box::pin(async move {
                let it = br.broadcast(q).await?;
                let v: Vec<i64> = match m {
                    None => it.collect(),
                    Some(k) => it.take(k).collect(),
                };
                Ok(v)
            }));
            out.push("Q".into());
        } else if let Some(rest) = op.strip_prefix("S:") {
            let f: Vec<&str> = rest.split(':').collect();
            let ik: Vec<usize> = f[0].split('.').map(|x| x.parse().unwrap()).collect();
            let acts: Vec<Act> = f[1].split('+').filter(|x| !x.is_empty()).map(parse_act).collect();
            ctl.lock().unwrap().script.insert((ik[0], ik[1]), acts);
            out.push("S".into());
        } else if *op == "p" {
            match fut.as_mut() {
                None => out.push("P-none".into()),
                Some(f) => {
                    ctl.lock().unwrap().sublog.clear();
                    let mut cx = Context::from_waker(&waker);
                    let r = f.as_mut().poll(&mut cx);
                    let subs: Vec<String> = ctl.lock().unwrap().sublog.iter().map(|x| x.to_string()).collect();
                    let res = match r {
                        Poll::Pending => "pend".to_string(),
                        Poll::Ready(Err(_)) => {
                            fut = None;
                            "err".to_string()
                        }
                        Poll::Ready(Ok(v)) => {
                            fut = None;
                            format!("ok:{}", v.iter().map(|x| x.to_string()).collect::<Vec<_>>().join(","))
                        }
                    };
                    out.push(format!("P[{}]={}", subs.join(","), res));
                }
            }
        } else if *op == "d" {
            fut = None;
            out.push("D".into());
        } else if *op == "N" {
            out.push(format!("N{}", pw.0.swap(0, O::SeqCst)));
        } else {
            do_act(&ctl, parse_act(op));
            out.push("-".into());
        }
    }
    drop(fut);
    // SAFETY: no future borrows the broadcaster any more
    drop(unsafe { Box::from_raw(bptr) });
    out.join(" ")
}
