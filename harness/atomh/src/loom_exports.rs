//! Substitute for nexosim's `crate::loom_exports`, used by the verbatim mirror
//! copies of the lock-free source files.  Atomics are instrumented (see
//! `sched`); outside a controlled run they behave exactly like std's.
#[allow(unused_imports)]
pub(crate) mod sync {
    pub(crate) use std::sync::{Arc, LockResult, PoisonError};
    pub(crate) use crate::sched::{Mutex, MutexGuard};

    pub(crate) mod atomic {
        pub(crate) use crate::sched::{fence, AtomicBool, AtomicU32, AtomicU64, AtomicUsize};
        pub(crate) use std::sync::atomic::{AtomicIsize, AtomicPtr, Ordering};
    }
}

pub(crate) mod cell {
    #[derive(Debug)]
    pub(crate) struct UnsafeCell<T>(std::cell::UnsafeCell<T>);

    #[allow(dead_code)]
    impl<T> UnsafeCell<T> {
        #[inline(always)]
        pub(crate) const fn new(data: T) -> UnsafeCell<T> {
            UnsafeCell(std::cell::UnsafeCell::new(data))
        }
        #[inline(always)]
        pub(crate) fn with<R>(&self, f: impl FnOnce(*const T) -> R) -> R {
            crate::sched::cell_access(self.0.get() as *const u8 as usize, false);
            f(self.0.get())
        }
        #[inline(always)]
        pub(crate) fn with_mut<R>(&self, f: impl FnOnce(*mut T) -> R) -> R {
            crate::sched::cell_access(self.0.get() as *const u8 as usize, true);
            f(self.0.get())
        }
    }
}

#[allow(unused_macros)]
macro_rules! debug_or_loom_assert {
    ($($arg:tt)*) => (assert!($($arg)*);)
}
#[allow(unused_macros)]
macro_rules! debug_or_loom_assert_eq {
    ($($arg:tt)*) => (assert_eq!($($arg)*);)
}
#[allow(unused_imports)]
pub(crate) use debug_or_loom_assert;
#[allow(unused_imports)]
pub(crate) use debug_or_loom_assert_eq;
