//! Scenarios on the real one-shot slot (mirrored util/slot.rs over instrumented atomics and cells) under the
//! deterministic scheduler: the writer writes or is dropped, the reader tries to read a number of times and is
//! dropped.
//!
//! slt <w|d> <ntry> S <schedule...>
//! Output: "<verdict> | reads=<n,v,c...> drops=<payload drops> deallocs=<n> uaf=<n>".
//! Oracle (the contract of the slot): the payload, if written, is dropped exactly once (by the scenario if
//! try_read returned it, by the slot otherwise); the allocation is freed exactly once, never touched
//! afterwards; at most one try_read returns the value, NoValue is only returned before the write took effect,
//! Closed only when the writer was dropped without writing.
use std::sync::atomic::{AtomicUsize as StdUsize, Ordering as O};
use std::sync::{Arc, Mutex as StdMutex};

use crate::sched;
use crate::util::slot::{slot, ReadError};

struct Tracked(Arc<StdUsize>, [u64; 6]);
impl Drop for Tracked {
    fn drop(&mut self) {
        self.0.fetch_add(1, O::SeqCst);
    }
}

pub(crate) fn run(w: &[&str]) -> String {
    let writes = w[0] == "w";
    let ntry: usize = w[1].parse().unwrap();
    let spos = w.iter().position(|x| *x == "S").unwrap();
    let schedule: Vec<usize> = w[spos + 1..].iter().map(|x| x.parse().unwrap()).collect();
    let drops = Arc::new(StdUsize::new(0));
    let reads: Arc<StdMutex<Vec<char>>> = Arc::new(StdMutex::new(Vec::new()));

    sched::record_allocs(true);
    let (writer, mut reader) = slot::<Tracked>();
    sched::record_allocs(false);
    sched::watch_largest_recorded();

    let mut threads: Vec<Box<dyn FnOnce() + Send>> = Vec::new();
    {
        let drops = drops.clone();
        threads.push(Box::new(move || {
            if writes {
                sched::ghost("write");
                let _ = writer.write(Tracked(drops, [7; 6]));
                sched::ghost("write-end");
            } else {
                sched::ghost("wdrop");
                drop(writer);
                sched::ghost("wdrop-end");
            }
        }));
    }
    {
        let reads = reads.clone();
        threads.push(Box::new(move || {
            for _ in 0..ntry {
                sched::ghost("try");
                let r = reader.try_read();
                let c = match r {
                    Ok(v) => {
                        drop(v);
                        'v'
                    }
                    Err(ReadError::NoValue) => 'n',
                    Err(ReadError::Closed) => 'c',
                };
                reads.lock().unwrap().push(c);
                sched::ghost(format!("try-end {}", c));
            }
            sched::ghost("rdrop");
            drop(reader);
            sched::ghost("rdrop-end");
        }));
    }
    let r = sched::run(threads, &schedule, 2000);
    let (deallocs, uaf, _) = sched::dealloc_stats();
    let rd: Vec<char> = reads.lock().unwrap().clone();
    let nd = drops.load(O::SeqCst);
    let mut verdict = Vec::new();
    if r.budget_exceeded {
        verdict.push("BUDGET".to_string());
    }
    if r.deadlock {
        verdict.push("STUCK".to_string());
    }
    for (t, m) in &r.panics {
        verdict.push(format!("PANIC-t{}-{}", t, m.replace(' ', "_")));
    }
    if writes && nd != 1 {
        verdict.push(format!("PAYLOAD-DROPS-{}", nd));
    }
    if !writes && nd != 0 {
        verdict.push(format!("PAYLOAD-DROPS-{}", nd));
    }
    if deallocs != 1 {
        verdict.push(format!("DEALLOCS-{}", deallocs));
    }
    if uaf != 0 {
        verdict.push(format!("ACCESS-AFTER-FREE-{}", uaf));
    }
    if rd.iter().filter(|c| **c == 'v').count() > 1 {
        verdict.push("VALUE-READ-TWICE".to_string());
    }
    if writes && rd.contains(&'c') && !rd.contains(&'v') {
        // Closed before any value: only legal after the value has been read out
        verdict.push("CLOSED-ALTHOUGH-WRITTEN".to_string());
    }
    if !writes && rd.contains(&'v') {
        verdict.push("VALUE-NEVER-WRITTEN".to_string());
    }
    // after a value was read, later attempts see a closed slot
    if let Some(i) = rd.iter().position(|c| *c == 'v') {
        if rd[i + 1..].iter().any(|c| *c != 'c') {
            verdict.push("NOT-CLOSED-AFTER-READ".to_string());
        }
    }
    let v = if verdict.is_empty() { "OK".to_string() } else { verdict.join(",") };
    format!("{} | reads={} drops={} deallocs={} uaf={}", v, rd.iter().collect::<String>(), nd, deallocs, uaf)
}
