//! Stand-in for async-event's own `loom_exports`: the instrumented primitives of the harness.
#[allow(unused_imports)]
pub(crate) mod sync {
    pub(crate) use crate::sched::Mutex;
    pub(crate) mod atomic {
        pub(crate) use crate::sched::{fence, AtomicBool};
    }
}
pub(crate) mod cell {
    pub(crate) use crate::loom_exports::cell::UnsafeCell;
}
