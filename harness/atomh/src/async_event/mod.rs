//! An efficient async condition variable for lock-free algorithms, a.k.a.
//! "eventcount".
//!
//! [Eventcount][eventcount]-like primitives are useful to make some operations
//! on a lock-free structure blocking, for instance to transform bounded queues
//! into bounded channels. Such a primitive allows an interested task to block
//! until a predicate is satisfied by checking the predicate each time it
//! receives a notification.
//!
//! While functionally similar to the [event_listener] crate, this
//! implementation is more opinionated and limited to the `async` case. It
//! strives to be more efficient, however, by limiting the amount of locking
//! operations on the mutex-protected list of notifiers: the lock is typically
//! taken only once for each time a waiter is blocked and once for notifying,
//! thus reducing the need for synchronization operations. Finally, spurious
//! wake-ups are only generated in very rare circumstances.
//!
//! This library is an offshoot of [Asynchronix][asynchronix], an ongoing effort
//! at a high performance asynchronous computation framework for system
//! simulation.
//!
//! [event_listener]: https://docs.rs/event_listener/latest/event_listener/
//! [eventcount]:
//!     https://www.1024cores.net/home/lock-free-algorithms/eventcounts
//! [asynchronix]: https://github.com/asynchronics/asynchronix
//!
//! # Examples
//!
//! Wait until a non-zero value has been sent asynchronously.
//!
//! ```
//! use std::sync::atomic::{AtomicUsize, Ordering};
//! use std::sync::Arc;
//! use std::thread;
//!
//! use futures_executor::block_on;
//!
//! use async_event::Event;
//!
//!
//! let value = Arc::new(AtomicUsize::new(0));
//! let event = Arc::new(Event::new());
//!
//! // Set a non-zero value concurrently.
//! thread::spawn({
//!     let value = value.clone();
//!     let event = event.clone();
//!
//!     move || {
//!         // A relaxed store is sufficient here: `Event::notify*` methods insert
//!         // atomic fences to warrant adequate synchronization.
//!         value.store(42, Ordering::Relaxed);
//!         event.notify_one();
//!     }
//! });
//!
//! // Wait until the value is set.
//! block_on(async move {
//!     let v = event
//!         .wait_until(|| {
//!             // A relaxed load is sufficient here: `Event::wait_until` inserts
//!             // atomic fences to warrant adequate synchronization.
//!             let v = value.load(Ordering::Relaxed);
//!             if v != 0 { Some(v) } else { None }
//!         })
//!         .await;
//!
//!      assert_eq!(v, 42);
//! });
//! ```
mod loom_exports;

use std::future::Future;
use std::mem;
use std::pin::Pin;
use std::ptr::NonNull;
use std::sync::atomic::Ordering;
use std::task::{Context, Poll, Waker};

use loom_exports::cell::UnsafeCell;
use loom_exports::sync::atomic::{self, AtomicBool};
use loom_exports::sync::Mutex;
use pin_project_lite::pin_project;

/// An object that can receive or send notifications.
pub struct Event {
    wait_set: WaitSet,
}

impl Event {
    /// Creates a new event.
    pub fn new() -> Self {
        Self {
            wait_set: WaitSet::default(),
        }
    }

    /// Notify a number of awaiting events that the predicate should be checked.
    ///
    /// If less events than requested are currently awaiting, then all awaiting
    /// event are notified.
    #[inline(always)]
    pub fn notify(&self, n: usize) {
        // This fence synchronizes with the other fence in `WaitUntil::poll` and
        // ensures that either the `poll` method will successfully check the
        // predicate set before this call, or the notifier inserted by `poll`
        // will be visible in the wait list when calling `WaitSet::notify` (or
        // both).
        atomic::fence(Ordering::SeqCst);

        // Safety: all notifiers in the wait set are guaranteed to be alive
        // since the `WaitUntil` drop handler ensures that notifiers are removed
        // from the wait set before they are deallocated.
        unsafe {
            self.wait_set.notify_relaxed(n);
        }
    }

    /// Notify one awaiting event (if any) that the predicate should be checked.
    #[inline(always)]
    pub fn notify_one(&self) {
        self.notify(1);
    }

    /// Notify all awaiting events that the predicate should be checked.
    #[inline(always)]
    pub fn notify_all(&self) {
        self.notify(usize::MAX);
    }

    /// Returns a future that can be `await`ed until the provided predicate is
    /// satisfied.
    pub fn wait_until<F, T>(&self, predicate: F) -> WaitUntil<F, T>
    where
        F: FnMut() -> Option<T>,
    {
        WaitUntil::new(&self.wait_set, predicate)
    }

    /// Returns a future that can be `await`ed until the provided predicate is
    /// satisfied or until the provided future completes.
    ///
    /// The deadline is specified as a `Future` that is expected to resolves to
    /// `()` after some duration, such as a `tokio::time::Sleep` future.
    pub fn wait_until_or_timeout<F, T, D>(
        &self,
        predicate: F,
        deadline: D,
    ) -> WaitUntilOrTimeout<F, T, D>
    where
        F: FnMut() -> Option<T>,
        D: Future<Output = ()>,
    {
        WaitUntilOrTimeout::new(&self.wait_set, predicate, deadline)
    }
}

impl Default for Event {
    fn default() -> Self {
        Self::new()
    }
}

unsafe impl Send for Event {}
unsafe impl Sync for Event {}

/// A waker wrapper that can be inserted in a list.
///
/// A notifier always has an exclusive owner or borrower, except in one edge
/// case: the `WaitSet::remove_relaxed()` method may create a shared reference
/// while the notifier is concurrently accessed under the `wait_set` mutex by
/// one of the `WaitSet` methods. So occasionally 2 references to a `Notifier`
/// will exist at the same time, meaning that even when accessed under the
/// `wait_set` mutex, a notifier can only be accessed by reference.
struct Notifier {
    /// The current waker, if any.
    waker: Option<Waker>,
    /// Pointer to the previous wait set notifier.
    prev: UnsafeCell<Option<NonNull<Notifier>>>,
    /// Pointer to the next wait set notifier.
    next: UnsafeCell<Option<NonNull<Notifier>>>,
    /// Flag indicating whether the notifier is currently in the wait set.
    in_wait_set: AtomicBool,
}

impl Notifier {
    /// Creates a new Notifier without any registered waker.
    fn new() -> Self {
        Self {
            waker: None,
            prev: UnsafeCell::new(None),
            next: UnsafeCell::new(None),
            in_wait_set: AtomicBool::new(false),
        }
    }

    /// Stores the specified waker if it differs from the cached waker.
    fn set_waker(&mut self, waker: &Waker) {
        if match &self.waker {
            Some(w) => !w.will_wake(waker),
            None => true,
        } {
            self.waker = Some(waker.clone());
        }
    }

    /// Notifies the task.
    fn wake(&self) {
        // Safety: the waker is only ever accessed mutably when the notifier is
        // itself accessed mutably. The caller claims shared (non-mutable)
        // ownership of the notifier, so there is not possible concurrent
        // mutable access to the notifier and therefore to the waker.
        if let Some(w) = &self.waker {
            w.wake_by_ref();
        }
    }
}

unsafe impl Send for Notifier {}
unsafe impl Sync for Notifier {}

/// A future that can be `await`ed until a predicate is satisfied.
pub struct WaitUntil<'a, F: FnMut() -> Option<T>, T> {
    state: WaitUntilState,
    predicate: F,
    wait_set: &'a WaitSet,
}

impl<'a, F: FnMut() -> Option<T>, T> WaitUntil<'a, F, T> {
    /// Creates a future associated with the specified event sink that can be
    /// `await`ed until the specified predicate is satisfied.
    fn new(wait_set: &'a WaitSet, predicate: F) -> Self {
        Self {
            state: WaitUntilState::Idle,
            predicate,
            wait_set,
        }
    }
}

impl<F: FnMut() -> Option<T>, T> Drop for WaitUntil<'_, F, T> {
    fn drop(&mut self) {
        if let WaitUntilState::Polled(notifier) = self.state {
            // If we are in the `Polled` stated, it means that the future was
            // cancelled and its notifier may still be in the wait set: it is
            // necessary to cancel the notifier so that another event sink can
            // be notified if one is registered, and then to deallocate the
            // notifier.
            //
            // Safety: all notifiers in the wait set are guaranteed to be alive
            // since this drop handler ensures that notifiers are removed from
            // the wait set before they are deallocated. After the notifier is
            // removed from the list we can claim unique ownership and
            // deallocate the notifier.
            unsafe {
                self.wait_set.cancel(notifier);
                let _ = Box::from_raw(notifier.as_ptr());
            }
        }
    }
}

impl<'a, F: FnMut() -> Option<T>, T> Unpin for WaitUntil<'a, F, T> {}

unsafe impl<F: (FnMut() -> Option<T>) + Send, T: Send> Send for WaitUntil<'_, F, T> {}

impl<'a, F: FnMut() -> Option<T>, T> Future for WaitUntil<'a, F, T> {
    type Output = T;

    #[inline]
    fn poll(mut self: Pin<&mut Self>, cx: &mut Context<'_>) -> Poll<Self::Output> {
        assert!(self.state != WaitUntilState::Completed);

        // Remove the notifier if it is in the wait set. In most cases this will
        // be a cheap no-op because, unless the wake-up is spurious, the
        // notifier was already removed from the wait set.
        //
        // Removing the notifier before checking the predicate is necessary to
        // avoid races such as this one:
        //
        // 1) event sink A unsuccessfully checks the predicate, inserts its
        //    notifier in the wait set, unsuccessfully re-checks the predicate,
        //    returns `Poll::Pending`,
        // 2) event sink B unsuccessfully checks the predicate, inserts its
        //    notifier in the wait set, unsuccessfully re-checks the predicate,
        //    returns `Poll::Pending`,
        // 3) the event source makes one predicate satisfiable,
        // 4) event sink A is spuriously awaken and successfully checks the
        //    predicates, returns `Poll::Ready`,
        // 5) the event source notifies event sink B,
        // 6) event sink B is awaken and unsuccessfully checks the predicate,
        //    inserts its notifier in the wait set, unsuccessfully re-checks the
        //    predicate, returns `Poll::Pending`,
        // 7) the event source makes another predicate satisfiable.
        // 8) if now the notifier of event sink A was not removed from the wait
        //    set, the event source may notify event sink A (which is no longer
        //    interested) rather than event sink B, meaning that event sink B
        //    will never be notified.
        if let WaitUntilState::Polled(notifier) = self.state {
            // Safety: all notifiers in the wait set are guaranteed to be alive
            // since the `WaitUntil` drop handler ensures that notifiers are
            // removed from the wait set before they are deallocated. Using the
            // relaxed version of `notify` is enough since the notifier was
            // inserted in the same future so there exists a happen-before
            // relationship with the insertion operation.
            unsafe { self.wait_set.remove_relaxed(notifier) };
        }

        // Fast path.
        if let Some(v) = (self.predicate)() {
            if let WaitUntilState::Polled(notifier) = self.state {
                // Safety: the notifier is no longer in the wait set so we can
                // claim unique ownership and deallocate the notifier.
                let _ = unsafe { Box::from_raw(notifier.as_ptr()) };
            }

            self.state = WaitUntilState::Completed;

            return Poll::Ready(v);
        }

        let mut notifier = if let WaitUntilState::Polled(notifier) = self.state {
            notifier
        } else {
            unsafe { NonNull::new_unchecked(Box::into_raw(Box::new(Notifier::new()))) }
        };

        // Set or update the notifier.
        //
        // Safety: the notifier is not (or no longer) in the wait list so we
        // have exclusive ownership.
        let waker = cx.waker();
        unsafe { notifier.as_mut().set_waker(waker) };

        // Safety: all notifiers in the wait set are guaranteed to be alive
        // since the `WaitUntil` drop handler ensures that notifiers are removed
        // from the wait set before they are deallocated.
        unsafe { self.wait_set.insert(notifier) };

        // This fence synchronizes with the other fence in `Event::notify` and
        // ensures that either the predicate below will be satisfied or the
        // event source will see the notifier inserted above in the wait list
        // after it makes the predicate satisfiable (or both).
        atomic::fence(Ordering::SeqCst);

        if let Some(v) = (self.predicate)() {
            // We need to cancel and not merely remove the notifier from the
            // wait set so that another event sink can be notified in case we
            // have been notified just after checking the predicate. This is an
            // example of race that makes this necessary:
            //
            // 1) event sink A and event sink B both unsuccessfully check the
            //    predicate,
            // 2) the event source makes one predicate satisfiable and tries to
            //    notify an event sink but fails since no notifier has been
            //    inserted in the wait set yet,
            // 3) event sink A and event sink B both insert their notifier in
            //    the wait set,
            // 4) event sink A re-checks the predicate, successfully,
            // 5) event sink B re-checks the predicate, unsuccessfully,
            // 6) the event source makes another predicate satisfiable,
            // 7) the event source sends a notification for the second predicate
            //    but unfortunately chooses the "wrong" notifier in the wait
            //    set, i.e. that of event sink A -- note that this is always
            //    possible irrespective of FIFO or LIFO ordering because it also
            //    depends on the order of notifier insertion in step 3)
            // 8) if, before returning, event sink A merely removes itself from
            //    the wait set without notifying another event sink, then event
            //    sink B will never be notified.
            //
            // Safety: all notifiers in the wait set are guaranteed to be alive
            // since the `WaitUntil` drop handler ensures that notifiers are
            // removed from the wait set before they are deallocated.
            unsafe {
                self.wait_set.cancel(notifier);
            }

            self.state = WaitUntilState::Completed;

            // Safety: the notifier is not longer in the wait set so we can
            // claim unique ownership and deallocate the notifier.
            let _ = unsafe { Box::from_raw(notifier.as_ptr()) };

            return Poll::Ready(v);
        }

        self.state = WaitUntilState::Polled(notifier);

        Poll::Pending
    }
}

/// State of the `WaitUntil` future.
#[derive(PartialEq)]
enum WaitUntilState {
    Idle,
    Polled(NonNull<Notifier>),
    Completed,
}

pin_project! {
    /// A future that can be `await`ed until a predicate is satisfied or until a
    /// deadline elapses.
    pub struct WaitUntilOrTimeout<'a, F: FnMut() -> Option<T>, T, D: Future<Output = ()>> {
        wait_until: WaitUntil<'a, F, T>,
        #[pin]
        deadline: D,
    }
}

impl<'a, F, T, D> WaitUntilOrTimeout<'a, F, T, D>
where
    F: FnMut() -> Option<T>,
    D: Future<Output = ()>,
{
    /// Creates a future associated with the specified event sink that can be
    /// `await`ed until the specified predicate is satisfied, or until the
    /// specified timeout future completes.
    fn new(wait_set: &'a WaitSet, predicate: F, deadline: D) -> Self {
        Self {
            wait_until: WaitUntil::new(wait_set, predicate),
            deadline,
        }
    }
}

impl<'a, F, T, D> Future for WaitUntilOrTimeout<'a, F, T, D>
where
    F: FnMut() -> Option<T>,
    D: Future<Output = ()>,
{
    type Output = Option<T>;

    #[inline]
    fn poll(self: Pin<&mut Self>, cx: &mut Context<'_>) -> Poll<Self::Output> {
        let this = self.project();

        if let Poll::Ready(value) = Pin::new(this.wait_until).poll(cx) {
            Poll::Ready(Some(value))
        } else if this.deadline.poll(cx).is_ready() {
            Poll::Ready(None)
        } else {
            Poll::Pending
        }
    }
}

/// A set of notifiers.
///
/// The set wraps a Mutex-protected list of notifiers and manages a flag for
/// fast assessment of list emptiness.
struct WaitSet {
    list: Mutex<List>,
    is_empty: AtomicBool,
}

impl WaitSet {
    /// Inserts a node in the wait set.
    ///
    /// # Safety
    ///
    /// The specified notifier and all notifiers in the wait set must be alive.
    /// The notifier should not be already in the wait set.
    unsafe fn insert(&self, notifier: NonNull<Notifier>) {
        let mut list = self.list.lock().unwrap();

        #[cfg(any(debug_assertions, async_event_loom))]
        if notifier.as_ref().in_wait_set.load(Ordering::Relaxed) {
            drop(list); // avoids poisoning the lock
            panic!("the notifier was already in the wait set");
        }

        // Orderings: Relaxed ordering is sufficient since before this point the
        // notifier was not in the list and therefore not shared.
        notifier.as_ref().in_wait_set.store(true, Ordering::Relaxed);

        list.push_back(notifier);

        // Ordering: since this flag is only ever mutated within the
        // mutex-protected critical section, Relaxed ordering is sufficient.
        self.is_empty.store(false, Ordering::Relaxed);
    }

    /// Remove the specified notifier if it is still in the wait set.
    ///
    /// After a call to `remove`, the caller is guaranteed that the wait set
    /// will no longer access the specified notifier.
    ///
    /// Note that for performance reasons, the presence of the notifier in the
    /// list is checked without acquiring the lock. This fast check will never
    /// lead to a notifier staying in the list as long as there exists an
    /// happens-before relationship between this call and the earlier call to
    /// `insert`. A happens-before relationship always exists if these calls are
    /// made on the same thread or across `await` points.
    ///
    /// # Safety
    ///
    /// The specified notifier and all notifiers in the wait set must be alive.
    /// This function may fail to remove the notifier if a happens-before
    /// relationship does not exist with the previous call to `insert`.
    unsafe fn remove_relaxed(&self, notifier: NonNull<Notifier>) {
        // Preliminarily check whether the notifier is already in the list (fast
        // path).
        //
        // This is the only instance where the `in_wait_set` flag is accessed
        // outside the mutex-protected critical section while the notifier may
        // still be in the list. The only risk is that the load will be stale
        // and will read `true` even though the notifier is no longer in the
        // list, but this is not an issue since in that case the actual state
        // will be checked again after taking the lock.
        //
        // Ordering: Acquire synchronizes with the `Release` orderings in the
        // `notify` and `cancel` methods; it is necessary to ensure that the
        // waker is no longer in use by the wait set and can therefore be
        // modified after returning from `remove`.
        let in_wait_set = notifier.as_ref().in_wait_set.load(Ordering::Acquire);
        if !in_wait_set {
            return;
        }

        self.remove(notifier);
    }

    /// Remove the specified notifier if it is still in the wait set.
    ///
    /// After a call to `remove`, the caller is guaranteed that the wait set
    /// will no longer access the specified notifier.
    ///
    /// # Safety
    ///
    /// The specified notifier and all notifiers in the wait set must be alive.
    unsafe fn remove(&self, notifier: NonNull<Notifier>) {
        let mut list = self.list.lock().unwrap();

        // Check again whether the notifier is already in the list
        //
        // Ordering: since this flag is only ever mutated within the
        // mutex-protected critical section and since the wait set also accesses
        // the waker only in the critical section, even with Relaxed ordering it
        // is guaranteed that if `in_wait_set` reads `false` then the waker is
        // no longer in use by the wait set.
        let in_wait_set = notifier.as_ref().in_wait_set.load(Ordering::Relaxed);
        if !in_wait_set {
            return;
        }

        list.remove(notifier);
        if list.is_empty() {
            // Ordering: since this flag is only ever mutated within the
            // mutex-protected critical section, Relaxed ordering is sufficient.
            self.is_empty.store(true, Ordering::Relaxed);
        }

        // Ordering: this flag is only ever mutated within the mutex-protected
        // critical section and since the waker is not accessed in this method,
        // it does not need to synchronize with a later call to `remove`;
        // therefore, Relaxed ordering is sufficient.
        notifier
            .as_ref()
            .in_wait_set
            .store(false, Ordering::Relaxed);
    }

    /// Remove the specified notifier if it is still in the wait set, otherwise
    /// notify another event sink.
    ///
    /// After a call to `cancel`, the caller is guaranteed that the wait set
    /// will no longer access the specified notifier.
    ///
    /// # Safety
    ///
    /// The specified notifier and all notifiers in the wait set must be alive.
    /// Wakers of notifiers which pointer is in the wait set may not be accessed
    /// mutably.
    unsafe fn cancel(&self, notifier: NonNull<Notifier>) {
        let mut list = self.list.lock().unwrap();

        let in_wait_set = notifier.as_ref().in_wait_set.load(Ordering::Relaxed);
        if in_wait_set {
            list.remove(notifier);
            if list.is_empty() {
                self.is_empty.store(true, Ordering::Relaxed);
            }

            // Ordering: this flag is only ever mutated within the
            // mutex-protected critical section and since the waker is not
            // accessed, it does not need to synchronize with the Acquire load
            // in the `remove` method; therefore, Relaxed ordering is
            // sufficient.
            notifier
                .as_ref()
                .in_wait_set
                .store(false, Ordering::Relaxed);
        } else if let Some(other_notifier) = list.pop_front() {
            // Safety: the waker can be accessed by reference because the
            // event sink is not allowed to access the waker mutably before
            // `in_wait_set` is cleared.
            other_notifier.as_ref().wake();

            // Ordering: the Release memory ordering synchronizes with the
            // Acquire ordering in the `remove` method; it is required to
            // ensure that once `in_wait_set` reads `false` (using Acquire
            // ordering), the waker is no longer in use by the wait set and
            // can therefore be modified.
            other_notifier
                .as_ref()
                .in_wait_set
                .store(false, Ordering::Release);
        }
    }

    /// Send a notification to `count` notifiers within the wait set, or to all
    /// notifiers if the wait set contains less than `count` notifiers.
    ///
    /// Note that for performance reasons, list emptiness is checked without
    /// acquiring the wait set lock. Therefore, in order to prevent the
    /// possibility that a wait set is seen as empty when it isn't, external
    /// synchronization is required to make sure that all side effects of a
    /// previous call to `insert` are fully visible. For instance, an atomic
    /// memory fence maye be placed before this call and another one after the
    /// insertion of a notifier.
    ///
    /// # Safety
    ///
    /// All notifiers in the wait set must be alive. Wakers of notifiers which
    /// pointer is in the wait set may not be accessed mutably.
    #[inline(always)]
    unsafe fn notify_relaxed(&self, count: usize) {
        let is_empty = self.is_empty.load(Ordering::Relaxed);
        if is_empty {
            return;
        }

        self.notify(count);
    }

    /// Send a notification to `count` notifiers within the wait set, or to all
    /// notifiers if the wait set contains less than `count` notifiers.
    ///
    /// # Safety
    ///
    /// All notifiers in the wait set must be alive. Wakers of notifiers which
    /// pointer is in the wait set may not be accessed mutably.
    unsafe fn notify(&self, count: usize) {
        let mut list = self.list.lock().unwrap();
        for _ in 0..count {
            let notifier = {
                if let Some(notifier) = list.pop_front() {
                    if list.is_empty() {
                        self.is_empty.store(true, Ordering::Relaxed);
                    }
                    notifier
                } else {
                    return;
                }
            };

            // Note: the event sink must be notified before the end of the
            // mutex-protected critical section. Otherwise, a concurrent call to
            // `remove` could succeed in taking the lock before the waker has
            // been called, and seeing that the notifier is no longer in the
            // list would lead its caller to believe that it has now sole
            // ownership on the notifier even though the call to `wake` has yet
            // to be made.
            //
            // Safety: the waker can be accessed by reference since the event
            // sink is not allowed to access the waker mutably before
            // `in_wait_set` is cleared.
            notifier.as_ref().wake();

            // Ordering: the Release memory ordering synchronizes with the
            // Acquire ordering in the `remove` method; it is required to ensure
            // that once `in_wait_set` reads `false` (using Acquire ordering),
            // the waker can be safely modified.
            notifier
                .as_ref()
                .in_wait_set
                .store(false, Ordering::Release);
        }
    }
}

impl Default for WaitSet {
    fn default() -> Self {
        Self {
            list: Default::default(),
            is_empty: AtomicBool::new(true),
        }
    }
}

#[derive(Default)]
struct List {
    front: Option<NonNull<Notifier>>,
    back: Option<NonNull<Notifier>>,
}

impl List {
    /// Inserts a node at the back of the list.
    ///
    /// # Safety
    ///
    /// The provided notifier and all notifiers which pointer is in the list
    /// must be alive.
    unsafe fn push_back(&mut self, notifier: NonNull<Notifier>) {
        // Safety: the `prev` and `next` pointers are only be accessed when the
        // list is locked.
        let old_back = mem::replace(&mut self.back, Some(notifier));
        match old_back {
            None => self.front = Some(notifier),
            Some(prev) => prev.as_ref().next.with_mut(|n| *n = Some(notifier)),
        }

        // Link the new notifier.
        let notifier = notifier.as_ref();
        notifier.prev.with_mut(|n| *n = old_back);
        notifier.next.with_mut(|n| *n = None);
    }

    /// Removes and returns the notifier at the front of the list, if any.
    ///
    /// # Safety
    ///
    /// All notifiers which pointer is in the list must be alive.
    unsafe fn pop_front(&mut self) -> Option<NonNull<Notifier>> {
        let notifier = self.front?;

        // Unlink from the next notifier.
        let next = notifier.as_ref().next.with(|n| *n);
        self.front = next;
        match next {
            None => self.back = None,
            Some(next) => next.as_ref().prev.with_mut(|n| *n = None),
        }

        Some(notifier)
    }

    /// Removes the specified notifier.
    ///
    /// # Safety
    ///
    /// The specified notifier and all notifiers which pointer is in the list
    /// must be alive.
    unsafe fn remove(&mut self, notifier: NonNull<Notifier>) {
        // Unlink from the previous and next notifiers.
        let prev = notifier.as_ref().prev.with(|n| *n);
        let next = notifier.as_ref().next.with(|n| *n);
        match prev {
            None => self.front = next,
            Some(prev) => prev.as_ref().next.with_mut(|n| *n = next),
        }
        match next {
            None => self.back = prev,
            Some(next) => next.as_ref().prev.with_mut(|n| *n = prev),
        }
    }

    /// Returns `true` if the list is empty.
    fn is_empty(&self) -> bool {
        self.front.is_none()
    }
}

/// Non-loom tests.
#[cfg(all(test, not(async_event_loom)))]
mod tests {
    use super::*;

    use std::sync::atomic::AtomicUsize;
    use std::sync::Arc;
    use std::thread;

    use futures_executor::block_on;

    #[test]
    fn smoke() {
        static SIGNAL: AtomicBool = AtomicBool::new(false);

        let event = Arc::new(Event::new());

        let th_recv = {
            let event = event.clone();
            thread::spawn(move || {
                block_on(async move {
                    event
                        .wait_until(|| {
                            if SIGNAL.load(Ordering::Relaxed) {
                                Some(())
                            } else {
                                None
                            }
                        })
                        .await;

                    assert!(SIGNAL.load(Ordering::Relaxed));
                })
            })
        };

        SIGNAL.store(true, Ordering::Relaxed);
        event.notify_one();

        th_recv.join().unwrap();
    }

    #[test]
    fn one_to_many() {
        const RECEIVER_COUNT: usize = 4;
        static SIGNAL: AtomicBool = AtomicBool::new(false);

        let event = Arc::new(Event::new());

        let th_recv: Vec<_> = (0..RECEIVER_COUNT)
            .map(|_| {
                let event = event.clone();
                thread::spawn(move || {
                    block_on(async move {
                        event
                            .wait_until(|| {
                                if SIGNAL.load(Ordering::Relaxed) {
                                    Some(())
                                } else {
                                    None
                                }
                            })
                            .await;

                        assert!(SIGNAL.load(Ordering::Relaxed));
                    })
                })
            })
            .collect();

        SIGNAL.store(true, Ordering::Relaxed);
        event.notify_one();
        event.notify(3);

        for th in th_recv {
            th.join().unwrap();
        }
    }

    #[test]
    fn many_to_many() {
        const TOKEN_COUNT: usize = 4;
        static AVAILABLE_TOKENS: AtomicUsize = AtomicUsize::new(0);

        let event = Arc::new(Event::new());

        // Receive tokens from multiple threads.
        let th_recv: Vec<_> = (0..TOKEN_COUNT)
            .map(|_| {
                let event = event.clone();
                thread::spawn(move || {
                    block_on(async move {
                        event
                            .wait_until(|| {
                                AVAILABLE_TOKENS
                                    .fetch_update(Ordering::Relaxed, Ordering::Relaxed, |t| {
                                        if t > 0 {
                                            Some(t - 1)
                                        } else {
                                            None
                                        }
                                    })
                                    .ok()
                            })
                            .await;
                    })
                })
            })
            .collect();

        // Make tokens available from multiple threads.
        let th_send: Vec<_> = (0..TOKEN_COUNT)
            .map(|_| {
                let event = event.clone();
                thread::spawn(move || {
                    AVAILABLE_TOKENS.fetch_add(1, Ordering::Relaxed);
                    event.notify_one();
                })
            })
            .collect();

        for th in th_recv {
            th.join().unwrap();
        }
        for th in th_send {
            th.join().unwrap();
        }

        assert!(AVAILABLE_TOKENS.load(Ordering::Relaxed) == 0);
    }

    #[test]
    fn notify_all() {
        const RECEIVER_COUNT: usize = 4;
        static SIGNAL: AtomicBool = AtomicBool::new(false);

        let event = Arc::new(Event::new());

        let th_recv: Vec<_> = (0..RECEIVER_COUNT)
            .map(|_| {
                let event = event.clone();
                thread::spawn(move || {
                    block_on(async move {
                        event
                            .wait_until(|| {
                                if SIGNAL.load(Ordering::Relaxed) {
                                    Some(())
                                } else {
                                    None
                                }
                            })
                            .await;

                        assert!(SIGNAL.load(Ordering::Relaxed));
                    })
                })
            })
            .collect();

        SIGNAL.store(true, Ordering::Relaxed);
        event.notify_all();

        for th in th_recv {
            th.join().unwrap();
        }
    }
}

/// Loom tests.
#[cfg(all(test, async_event_loom))]
mod tests {
    use super::*;

    use std::future::Future;
    use std::marker::PhantomPinned;
    use std::task::{Context, Poll};

    use loom::model::Builder;
    use loom::sync::atomic::AtomicUsize;
    use loom::sync::Arc;
    use loom::thread;

    use waker_fn::waker_fn;

    /// A waker factory that accepts notifications from the newest waker only.
    #[derive(Clone, Default)]
    struct MultiWaker {
        state: Arc<AtomicUsize>,
    }

    impl MultiWaker {
        /// Clears the notification flag.
        ///
        /// This operation has unconditional Relaxed semantic and for this
        /// reason should be used instead of `take_notification` when the intent
        /// is only to cancel a notification for book-keeping purposes, e.g. to
        /// simulate a spurious wake-up, without introducing unwanted
        /// synchronization.
        fn clear_notification(&self) {
            self.state.fetch_and(!1, Ordering::Relaxed);
        }

        /// Clears the notification flag and returns the former notification
        /// status.
        ///
        /// This operation has Acquire semantic when a notification is indeed
        /// present, and Relaxed otherwise. It is therefore appropriate to
        /// simulate a scheduler receiving a notification as it ensures that all
        /// memory operations preceding the notification of a task are visible.
        fn take_notification(&self) -> bool {
            // Clear the notification flag.
            let mut state = self.state.load(Ordering::Relaxed);
            loop {
                let notified_stated = state | 1;
                let unnotified_stated = state & !1;
                match self.state.compare_exchange_weak(
                    notified_stated,
                    unnotified_stated,
                    Ordering::Acquire,
                    Ordering::Relaxed,
                ) {
                    Ok(_) => return true,
                    Err(s) => {
                        state = s;
                        if state == unnotified_stated {
                            return false;
                        }
                    }
                }
            }
        }

        /// Clears the notification flag and creates a new waker.
        fn new_waker(&self) -> Waker {
            // Increase the epoch and clear the notification flag.
            let mut state = self.state.load(Ordering::Relaxed);
            let mut epoch;
            loop {
                // Increase the epoch by 2.
                epoch = (state & !1) + 2;
                match self.state.compare_exchange_weak(
                    state,
                    epoch,
                    Ordering::Relaxed,
                    Ordering::Relaxed,
                ) {
                    Ok(_) => break,
                    Err(s) => state = s,
                }
            }

            // Create a waker that only notifies if it is the newest waker.
            let waker_state = self.state.clone();
            waker_fn(move || {
                let mut state = waker_state.load(Ordering::Relaxed);
                loop {
                    let new_state = if state & !1 == epoch {
                        epoch | 1
                    } else {
                        break;
                    };
                    match waker_state.compare_exchange(
                        state,
                        new_state,
                        Ordering::Release,
                        Ordering::Relaxed,
                    ) {
                        Ok(_) => break,
                        Err(s) => state = s,
                    }
                }
            })
        }
    }

    /// A simple counter that can be used to simulate the availability of a
    /// certain number of AVAILABLE_TOKENS. In order to model the weakest possible
    /// predicate from the viewpoint of atomic memory ordering, only Relaxed
    /// atomic operations are used.
    #[derive(Default)]
    struct Counter {
        count: AtomicUsize,
    }

    impl Counter {
        fn increment(&self) {
            self.count.fetch_add(1, Ordering::Relaxed);
        }
        fn try_decrement(&self) -> Option<()> {
            let mut count = self.count.load(Ordering::Relaxed);
            loop {
                if count == 0 {
                    return None;
                }
                match self.count.compare_exchange(
                    count,
                    count - 1,
                    Ordering::Relaxed,
                    Ordering::Relaxed,
                ) {
                    Ok(_) => return Some(()),
                    Err(c) => count = c,
                }
            }
        }
    }

    /// A closure that contains the targets of all references captured by a
    /// `WaitUntil` Future.
    ///
    /// This ugly thing is needed to arbitrarily extend the lifetime of a
    /// `WaitUntil` future and thus mimic the behavior of an executor task.
    struct WaitUntilClosure {
        event: Arc<Event>,
        token_counter: Arc<Counter>,
        wait_until: Option<Box<dyn Future<Output = ()>>>,
        _pin: PhantomPinned,
    }

    impl WaitUntilClosure {
        /// Creates a `WaitUntil` future embedded together with the targets
        /// captured by reference.
        fn new(event: Arc<Event>, token_counter: Arc<Counter>) -> Pin<Box<Self>> {
            let res = Self {
                event,
                token_counter,
                wait_until: None,
                _pin: PhantomPinned,
            };
            let boxed = Box::new(res);

            // Artificially extend the lifetimes of the captured references.
            let event_ptr = &*boxed.event as *const Event;
            let token_counter_ptr = &boxed.token_counter as *const Arc<Counter>;

            // Safety: we now commit to never move the closure and to ensure
            // that the `WaitUntil` future does not outlive the captured
            // references.
            let wait_until: Box<dyn Future<Output = _>> = unsafe {
                Box::new((*event_ptr).wait_until(move || (*token_counter_ptr).try_decrement()))
            };
            let mut pinned_box: Pin<Box<WaitUntilClosure>> = boxed.into();

            let mut_ref: Pin<&mut Self> = Pin::as_mut(&mut pinned_box);
            unsafe {
                // This is safe: we are not moving the closure.
                Pin::get_unchecked_mut(mut_ref).wait_until = Some(wait_until);
            }

            pinned_box
        }

        /// Returns a pinned, type-erased `WaitUntil` future.
        fn as_pinned_future(self: Pin<&mut Self>) -> Pin<&mut dyn Future<Output = ()>> {
            unsafe { self.map_unchecked_mut(|s| s.wait_until.as_mut().unwrap().as_mut()) }
        }
    }

    impl Drop for WaitUntilClosure {
        fn drop(&mut self) {
            // Make sure that the `WaitUntil` future does not outlive its
            // captured references.
            self.wait_until = None;
        }
    }

    /// An enum that registers the final state of a `WaitUntil` future at the
    /// completion of a thread.
    ///
    /// When the future is still in a `Polled` state, this future is moved into
    /// the enum so as to extend its lifetime and allow it to be further
    /// notified.
    #[allow(dead_code)]
    enum FutureState {
        Completed,
        Polled(Pin<Box<WaitUntilClosure>>),
        Cancelled,
    }

    /// Make a certain amount of AVAILABLE_TOKENS available and notify as many waiters
    /// among all registered waiters, possibly from several notifier threads.
    /// Optionally, it is possible to:
    /// - request that `max_spurious_wake` threads will simulate a spurious
    ///   wake-up if the waiter is polled and returns `Poll::Pending`,
    /// - request that `max_cancellations` threads will cancel the waiter if the
    ///   waiter is polled and returns `Poll::Pending`,
    /// - change the waker each time it is polled.
    ///
    /// Note that the aggregate number of specified cancellations and spurious
    /// wake-ups cannot exceed the number of waiters.
    fn loom_notify(
        token_count: usize,
        waiter_count: usize,
        notifier_count: usize,
        max_spurious_wake: usize,
        max_cancellations: usize,
        change_waker: bool,
        preemption_bound: usize,
    ) {
        let mut builder = Builder::new();
        if builder.preemption_bound.is_none() {
            builder.preemption_bound = Some(preemption_bound);
        }

        builder.check(move || {
            let token_counter = Arc::new(Counter::default());
            let event = Arc::new(Event::new());

            let mut wakers: Vec<MultiWaker> = Vec::new();
            wakers.resize_with(waiter_count, Default::default);

            let waiter_threads: Vec<_> = wakers
                .iter()
                .enumerate()
                .map(|(i, multi_waker)| {
                    thread::spawn({
                        let multi_waker = multi_waker.clone();
                        let mut wait_until =
                            WaitUntilClosure::new(event.clone(), token_counter.clone());

                        move || {
                            // `max_cancellations` threads will cancel the
                            // waiter if the waiter returns `Poll::Pending`.
                            let cancel_waiter = i < max_cancellations;
                            // `max_spurious_wake` threads will simulate a
                            // spurious wake-up if the waiter returns
                            // `Poll::Pending`.
                            let mut spurious_wake = i >= max_cancellations
                                && i < (max_cancellations + max_spurious_wake);

                            let mut waker = multi_waker.new_waker();
                            loop {
                                let mut cx = Context::from_waker(&waker);
                                let poll_state =
                                    wait_until.as_mut().as_pinned_future().poll(&mut cx);

                                // Return successfully if the predicate was
                                // checked successfully.
                                if matches!(poll_state, Poll::Ready(_)) {
                                    return FutureState::Completed;
                                }

                                // The future has returned Poll::Pending.
                                // Depending on the situation, we will either
                                // cancel the future, return and wait for a
                                // notification, or poll again.

                                if cancel_waiter {
                                    // The `wait_until` future is dropped while
                                    // in pending state, which simulates future
                                    // cancellation. Note that the notification
                                    // was intentionally cleared earlier so the
                                    // task will not be counted as a task that
                                    // should eventually succeed.
                                    return FutureState::Cancelled;
                                }
                                if spurious_wake {
                                    // Clear the notification, if any.
                                    multi_waker.clear_notification();
                                } else if !multi_waker.take_notification() {
                                    // The async runtime would normally keep the
                                    // `wait_until` future alive after `poll`
                                    // returns `Pending`. This behavior is
                                    // emulated by returning the `WaitUntil`
                                    // closure from the thread so as to extend
                                    // it lifetime.
                                    return FutureState::Polled(wait_until);
                                }

                                // The task was notified or spuriously awaken.
                                spurious_wake = false;
                                if change_waker {
                                    waker = multi_waker.new_waker();
                                }
                            }
                        }
                    })
                })
                .collect();

            // Increment the token count and notify a consumer after each
            // increment.
            assert!(notifier_count >= 1);
            assert!(token_count >= notifier_count);

            // Each notifier thread but the last one makes one and only one
            // token available.
            let notifier_threads: Vec<_> = (0..(notifier_count - 1))
                .map(|_| {
                    let token_counter = token_counter.clone();
                    let event = event.clone();
                    thread::spawn(move || {
                        token_counter.increment();
                        event.notify(1);
                    })
                })
                .collect();

            // The last notifier thread completes the number of AVAILABLE_TOKENS as
            // needed.
            for _ in 0..(token_count - (notifier_count - 1)) {
                token_counter.increment();
                event.notify(1);
            }

            // Join the remaining notifier threads.
            for th in notifier_threads {
                th.join().unwrap();
            }

            // Join all waiter threads and check which of them have successfully
            // checked the predicate. It is important that all `FutureState`
            // returned by the threads be kept alive until _all_ threads have
            // joined because `FutureState::Polled` items extend the lifetime of
            // their future so they can still be notified.
            let future_state: Vec<_> = waiter_threads
                .into_iter()
                .map(|th| th.join().unwrap())
                .collect();

            // See which threads have successfully completed. It is now OK to drop
            // the returned `FutureState`s.
            let success: Vec<_> = future_state
                .into_iter()
                .map(|state| match state {
                    FutureState::Completed => true,
                    _ => false,
                })
                .collect();

            // Check which threads have been notified, excluding those which
            // future was cancelled.
            let notified: Vec<_> = wakers
                .iter()
                .enumerate()
                .map(|(i, test_waker)| {
                    // Count the notification unless the thread was cancelled
                    // since in that case the notification would be missed.
                    test_waker.take_notification() && i >= max_cancellations
                })
                .collect();

            // Count how many threads have either succeeded or have been
            // notified.
            let actual_aggregate_count =
                success
                    .iter()
                    .zip(notified.iter())
                    .fold(0, |count, (&success, &notified)| {
                        if success || notified {
                            count + 1
                        } else {
                            count
                        }
                    });

            // Compare with the number of event sinks that should eventually succeed.
            let min_expected_success_count = token_count.min(waiter_count - max_cancellations);
            if actual_aggregate_count < min_expected_success_count {
                panic!(
                    "Successful threads: {:?}; Notified threads: {:?}",
                    success, notified
                );
            }
        });
    }

    #[test]
    fn loom_two_consumers() {
        const DEFAULT_PREEMPTION_BOUND: usize = 4;
        loom_notify(2, 2, 1, 0, 0, false, DEFAULT_PREEMPTION_BOUND);
    }
    #[test]
    fn loom_two_consumers_spurious() {
        const DEFAULT_PREEMPTION_BOUND: usize = 4;
        loom_notify(2, 2, 1, 1, 0, false, DEFAULT_PREEMPTION_BOUND);
    }
    #[test]
    fn loom_two_consumers_cancellation() {
        const DEFAULT_PREEMPTION_BOUND: usize = 4;
        loom_notify(2, 2, 1, 1, 1, false, DEFAULT_PREEMPTION_BOUND);
    }
    #[test]
    fn loom_two_consumers_change_waker() {
        const DEFAULT_PREEMPTION_BOUND: usize = 4;
        loom_notify(2, 2, 1, 0, 0, true, DEFAULT_PREEMPTION_BOUND);
    }
    #[test]
    fn loom_two_consumers_change_waker_spurious() {
        const DEFAULT_PREEMPTION_BOUND: usize = 4;
        loom_notify(2, 2, 1, 1, 0, true, DEFAULT_PREEMPTION_BOUND);
    }
    #[test]
    fn loom_two_consumers_change_waker_cancellation() {
        const DEFAULT_PREEMPTION_BOUND: usize = 4;
        loom_notify(1, 2, 1, 0, 1, true, DEFAULT_PREEMPTION_BOUND);
    }
    #[test]
    fn loom_two_consumers_change_waker_spurious_cancellation() {
        const DEFAULT_PREEMPTION_BOUND: usize = 4;
        loom_notify(2, 2, 1, 1, 1, true, DEFAULT_PREEMPTION_BOUND);
    }
    #[test]
    fn loom_two_consumers_three_tokens() {
        const DEFAULT_PREEMPTION_BOUND: usize = 3;
        loom_notify(3, 2, 1, 0, 0, false, DEFAULT_PREEMPTION_BOUND);
    }
    #[test]
    fn loom_three_consumers() {
        const DEFAULT_PREEMPTION_BOUND: usize = 2;
        loom_notify(3, 3, 1, 0, 0, false, DEFAULT_PREEMPTION_BOUND);
    }
    #[test]
    fn loom_three_consumers_spurious() {
        const DEFAULT_PREEMPTION_BOUND: usize = 2;
        loom_notify(3, 3, 1, 1, 0, false, DEFAULT_PREEMPTION_BOUND);
    }
    #[test]
    fn loom_three_consumers_cancellation() {
        const DEFAULT_PREEMPTION_BOUND: usize = 2;
        loom_notify(2, 3, 1, 0, 1, false, DEFAULT_PREEMPTION_BOUND);
    }
    #[test]
    fn loom_three_consumers_change_waker() {
        const DEFAULT_PREEMPTION_BOUND: usize = 2;
        loom_notify(3, 3, 1, 0, 0, true, DEFAULT_PREEMPTION_BOUND);
    }
    #[test]
    fn loom_three_consumers_change_waker_spurious() {
        const DEFAULT_PREEMPTION_BOUND: usize = 2;
        loom_notify(3, 3, 1, 1, 0, true, DEFAULT_PREEMPTION_BOUND);
    }
    #[test]
    fn loom_three_consumers_change_waker_cancellation() {
        const DEFAULT_PREEMPTION_BOUND: usize = 2;
        loom_notify(3, 3, 1, 0, 1, true, DEFAULT_PREEMPTION_BOUND);
    }
    #[test]
    fn loom_three_consumers_change_waker_spurious_cancellation() {
        const DEFAULT_PREEMPTION_BOUND: usize = 2;
        loom_notify(3, 3, 1, 1, 1, true, DEFAULT_PREEMPTION_BOUND);
    }
    #[test]
    fn loom_three_consumers_two_tokens() {
        const DEFAULT_PREEMPTION_BOUND: usize = 2;
        loom_notify(2, 3, 1, 0, 0, false, DEFAULT_PREEMPTION_BOUND);
    }
    #[test]
    fn loom_two_consumers_two_notifiers() {
        const DEFAULT_PREEMPTION_BOUND: usize = 3;
        loom_notify(2, 2, 2, 0, 0, false, DEFAULT_PREEMPTION_BOUND);
    }
    #[test]
    fn loom_one_consumer_three_notifiers() {
        const DEFAULT_PREEMPTION_BOUND: usize = 4;
        loom_notify(3, 1, 3, 0, 0, false, DEFAULT_PREEMPTION_BOUND);
    }
}
