//! Scenarios on the real diatomic-waker `DiatomicWaker` (verbatim source of the crate version pinned by /repo, over
//! the instrumented primitives) used the way channel.rs uses it for the receiver: producers make an item available
//! and call notify(); the single consumer wait_until's an item can be taken.
//!
//! dws <nproducers> <items per producer> <pops> <notify: 1 always | 0 never (sensitivity)> S <schedule...>
//! Output: "<verdict> | avail=<n> popped=<n> pending=<0|1> woken=<0|1>".
//! Oracle (no lost wake-up): when every thread has finished or given up, a consumer whose wait_until is still
//! pending and whose waker was not called faces an empty counter.
use std::future::Future;
use std::pin::Pin;
use std::sync::atomic::{AtomicBool as StdBool, AtomicUsize as StdUsize, Ordering as O};
use std::sync::Arc;
use std::task::{Context, Poll, Wake, Waker};

use crate::diatomic::DiatomicWaker;
use crate::sched;
use crate::sched::AtomicUsize;

struct Flag(StdBool);
impl Wake for Flag {
    fn wake(self: Arc<Self>) {
        self.0.store(true, O::SeqCst);
    }
}

pub(crate) fn run(w: &[&str]) -> String {
    let np: usize = w[0].parse().unwrap();
    let items: usize = w[1].parse().unwrap();
    let pops: usize = w[2].parse().unwrap();
    let notify = w[3] == "1";
    let spos = w.iter().position(|x| *x == "S").unwrap();
    let schedule: Vec<usize> = w[spos + 1..].iter().map(|x| x.parse().unwrap()).collect();

    let dw = Arc::new(DiatomicWaker::new());
    let avail = Arc::new(AtomicUsize::new(0));
    let flag = Arc::new(Flag(StdBool::new(false)));
    let pending = Arc::new(StdBool::new(false));
    let popped = Arc::new(StdUsize::new(0));
    let mut threads: Vec<Box<dyn FnOnce() + Send>> = Vec::new();
    // thread 0: the consumer
    {
        let dw = dw.clone();
        let avail = avail.clone();
        let flag = flag.clone();
        let pending = pending.clone();
        let popped = popped.clone();
        threads.push(Box::new(move || {
            let waker = Waker::from(flag.clone());
            let mut cx = Context::from_waker(&waker);
            for _ in 0..pops {
                // Safety: this is the only thread that registers / waits on this DiatomicWaker
                let mut fut = Box::pin(unsafe {
                    dw.wait_until(|| {
                        let mut cur = avail.load(O::SeqCst);
                        loop {
                            if cur == 0 {
                                return None;
                            }
                            match avail.compare_exchange(cur, cur - 1, O::SeqCst, O::SeqCst) {
                                Ok(_) => return Some(()),
                                Err(v) => cur = v,
                            }
                        }
                    })
                });
                loop {
                    flag.0.store(false, O::SeqCst);
                    pending.store(false, O::SeqCst);
                    match Pin::new(&mut fut).poll(&mut cx) {
                        Poll::Ready(()) => break,
                        Poll::Pending => {
                            pending.store(true, O::SeqCst);
                            let mut tries = 0;
                            while !flag.0.load(O::SeqCst) {
                                tries += 1;
                                if tries > 60 {
                                    std::mem::forget(fut);
                                    return;
                                }
                                sched::ghost("recv-spin");
                            }
                        }
                    }
                }
                popped.fetch_add(1, O::SeqCst);
                sched::ghost("popped");
            }
        }));
    }
    for _ in 0..np {
        let dw = dw.clone();
        let avail = avail.clone();
        threads.push(Box::new(move || {
            for _ in 0..items {
                avail.fetch_add(1, O::SeqCst);
                sched::ghost("pushed");
                if notify {
                    dw.notify();
                }
            }
        }));
    }
    let r = sched::run(threads, &schedule, 6000);
    let mut verdict = Vec::new();
    if r.budget_exceeded {
        verdict.push("BUDGET".to_string());
    }
    if r.deadlock {
        verdict.push("STUCK".to_string());
    }
    for (t, m) in &r.panics {
        verdict.push(format!("PANIC-t{}-{}", t, m.replace(' ', "_")));
    }
    let av = avail.load(O::SeqCst);
    let pend = pending.load(O::SeqCst);
    let wk = flag.0.load(O::SeqCst);
    if !r.budget_exceeded && !r.deadlock && pend && !wk && av > 0 {
        verdict.push("LOST-WAKEUP".to_string());
    }
    let v = if verdict.is_empty() { "OK".to_string() } else { verdict.join(",") };
    format!("{} | avail={} popped={} pending={} woken={}", v, av, popped.load(O::SeqCst), pend as u8, wk as u8)
}
