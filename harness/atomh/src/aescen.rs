//! Scenarios on the real async-event `Event` (verbatim lib.rs of the crate version pinned by /repo, over the
//! instrumented primitives) used the way channel.rs uses it: senders wait_until a slot of a bounded counter
//! can be taken, a receiver frees slots and calls notify_one after each.
//!
//! aes <cap> <nsenders> <sends per sender> <pops> <notify: 1 always | 0 never | 2 only-if-was-full> S <schedule...>
//! Output: "<verdict> | occ=<n> pending=<senders still pending> woken=<flags>".
//! Oracle (no lost wake-up): when every thread has finished or given up, a sender whose wait_until is still
//! pending and whose waker was not called faces a full counter (occ = cap) - unless the receiver could not pop
//! as many times as asked.
use std::future::Future;
use std::pin::Pin;
use std::sync::atomic::{AtomicBool as StdBool, AtomicUsize as StdUsize, Ordering as O};
use std::sync::Arc;
use std::task::{Context, Poll, Wake, Waker};

use crate::async_event::Event;
use crate::sched;
use crate::sched::AtomicUsize;

struct Flag(StdBool);
impl Wake for Flag {
    fn wake(self: Arc<Self>) {
        self.0.store(true, O::SeqCst);
    }
}

pub(crate) fn run(w: &[&str]) -> String {
    let cap: usize = w[0].parse().unwrap();
    let ns: usize = w[1].parse().unwrap();
    let sends: usize = w[2].parse().unwrap();
    let pops: usize = w[3].parse().unwrap();
    let policy: usize = w[4].parse().unwrap();
    let spos = w.iter().position(|x| *x == "S").unwrap();
    let schedule: Vec<usize> = w[spos + 1..].iter().map(|x| x.parse().unwrap()).collect();

    let event = Arc::new(Event::new());
    let occ = Arc::new(AtomicUsize::new(0));
    let flags: Vec<Arc<Flag>> = (0..ns).map(|_| Arc::new(Flag(StdBool::new(false)))).collect();
    let pending: Vec<Arc<StdBool>> = (0..ns).map(|_| Arc::new(StdBool::new(false))).collect();
    let popped = Arc::new(StdUsize::new(0));
    let mut threads: Vec<Box<dyn FnOnce() + Send>> = Vec::new();
    // thread 0: the receiver
    {
        let event = event.clone();
        let occ = occ.clone();
        let popped = popped.clone();
        threads.push(Box::new(move || {
            for _ in 0..pops {
                // wait (bounded) for something to pop
                let mut tries = 0;
                while occ.load(O::SeqCst) == 0 {
                    tries += 1;
                    if tries > 40 {
                        return;
                    }
                    sched::ghost("recv-spin");
                }
                let before = occ.fetch_sub(1, O::SeqCst);
                popped.fetch_add(1, O::SeqCst);
                sched::ghost("released");
                match policy {
                    1 => event.notify_one(),
                    2 => {
                        if before >= cap {
                            event.notify_one()
                        }
                    }
                    _ => {}
                }
            }
        }));
    }
    for x in 0..ns {
        let event = event.clone();
        let occ = occ.clone();
        let flag = flags[x].clone();
        let pend = pending[x].clone();
        threads.push(Box::new(move || {
            let waker = Waker::from(flag.clone());
            let mut cx = Context::from_waker(&waker);
            for _ in 0..sends {
                let mut fut = Box::pin(event.wait_until(|| {
                    let mut cur = occ.load(O::SeqCst);
                    loop {
                        if cur >= cap {
                            return None;
                        }
                        match occ.compare_exchange(cur, cur + 1, O::SeqCst, O::SeqCst) {
                            Ok(_) => return Some(()),
                            Err(v) => cur = v,
                        }
                    }
                }));
                loop {
                    flag.0.store(false, O::SeqCst);
                    pend.store(false, O::SeqCst);
                    match Pin::new(&mut fut).poll(&mut cx) {
                        Poll::Ready(()) => break,
                        Poll::Pending => {
                            pend.store(true, O::SeqCst);
                            let mut tries = 0;
                            while !flag.0.load(O::SeqCst) {
                                tries += 1;
                                if tries > 60 {
                                    // give up: the future stays pending (it is leaked so that its notifier
                                    // stays registered, as for a task that is simply never polled again)
                                    std::mem::forget(fut);
                                    return;
                                }
                                sched::ghost("send-spin");
                            }
                        }
                    }
                }
                sched::ghost("sent");
            }
        }));
    }
    let r = sched::run(threads, &schedule, 6000);
    let mut verdict = Vec::new();
    if r.budget_exceeded {
        verdict.push("BUDGET".to_string());
    }
    if r.deadlock {
        verdict.push("STUCK".to_string());
    }
    for (t, m) in &r.panics {
        verdict.push(format!("PANIC-t{}-{}", t, m.replace(' ', "_")));
    }
    let occ_end = occ.load(O::SeqCst);
    let pend: Vec<usize> = (0..ns).filter(|x| pending[*x].load(O::SeqCst)).collect();
    let woken: Vec<usize> = (0..ns).filter(|x| flags[*x].0.load(O::SeqCst)).collect();
    // a sender that gave up polling and was notified afterwards holds a notification it will never act upon:
    // an artefact of the bounded scenario (a woken task is always polled again), not a lost wake-up
    let stale = pend.iter().any(|x| woken.contains(x));
    if !r.budget_exceeded && !r.deadlock && !stale {
        for x in &pend {
            if !woken.contains(x) && occ_end < cap {
                verdict.push(format!("LOST-WAKEUP-s{}", x));
            }
        }
    }
    let v = if verdict.is_empty() { "OK".to_string() } else { verdict.join(",") };
    format!("{} | occ={} popped={} pending={:?} woken={:?}", v, occ_end, popped.load(O::SeqCst), pend, woken).replace(' ', "").replace("|", " | ")
}
