//! atomh: runs the *verbatim* current source of nexosim's crate-private
//! containers and lock-free primitives (mirrored from /repo into src/ on every
//! check) on operation sequences and controlled schedules.
#![allow(dead_code, unused_imports, unused_macros, clippy::all)]

mod loom_exports;
mod sched;

mod util {
    pub(crate) mod cached_rw_lock;
    pub(crate) mod indexed_priority_queue;
    pub(crate) mod priority_queue;
    pub(crate) mod sync_cell;
    pub(crate) mod task_set;
    pub(crate) mod slot;
    pub(crate) mod seq_futures;
}
mod channel {
    pub(crate) mod queue;
    #[path = "../qscen.rs"]
    pub(crate) mod qscen;
    /// stand-in for channel::SendError (channel.rs itself is exercised through the public API by simh)
    #[derive(Clone, Copy, Debug, PartialEq, Eq)]
    pub(crate) struct SendError;
}
mod ports {
    pub(crate) mod output {
        pub(crate) mod broadcaster;
        pub(crate) mod sender;
        #[path = "../../bscen.rs"]
        pub(crate) mod bscen;
    }
}
mod executor {
    pub(crate) mod task;
    pub(crate) mod mt_executor {
        pub(crate) mod injector;
    }
}

extern crate alloc;
mod async_event;
mod diatomic;
mod dwscen;
mod aescen;
mod slotscen;
mod seqops;
mod slscen;
mod tscen;
mod tsetscen;

use std::io::{BufRead, Write};

struct TrackAlloc;
unsafe impl std::alloc::GlobalAlloc for TrackAlloc {
    unsafe fn alloc(&self, l: std::alloc::Layout) -> *mut u8 {
        let p = std::alloc::System.alloc(l);
        sched::on_alloc(p as usize, l.size());
        p
    }
    unsafe fn dealloc(&self, p: *mut u8, l: std::alloc::Layout) {
        if sched::on_dealloc(p as usize, l.size()) {
            return; // quarantined
        }
        std::alloc::System.dealloc(p, l)
    }
}
#[global_allocator]
static GLOBAL: TrackAlloc = TrackAlloc;

fn main() {
    let args: Vec<String> = std::env::args().collect();
    let mode = args.get(1).map(|s| s.as_str()).unwrap_or("seq");
    match mode {
        "seq" => {
            // one case per line on stdin, one result line per case on stdout
            let stdin = std::io::stdin();
            let stdout = std::io::stdout();
            let mut out = stdout.lock();
            for line in stdin.lock().lines() {
                let line = line.unwrap();
                let r = std::panic::catch_unwind(|| seqops::run_case(&line));
                match r {
                    Ok(s) => writeln!(out, "{}", s).unwrap(),
                    Err(_) => writeln!(out, "PANIC").unwrap(),
                }
            }
        }
        _ => {
            eprintln!("unknown mode {}", mode);
            std::process::exit(2);
        }
    }
}
