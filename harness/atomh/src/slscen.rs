//! Scenario on the real util/sync_cell.rs (verbatim mirror) with the tearable time cell of
//! time/monotonic_time.rs re-implemented over the instrumented atomics (that file uses std atomics
//! directly and cannot be mirrored; its shape - two relaxed stores / two relaxed loads, secs first -
//! is reproduced here and checked by tools/gen_consts.py against the source).
use std::sync::atomic::Ordering;
use std::sync::{Arc, Mutex as StdMutex};

use crate::loom_exports::sync::atomic::{AtomicU32, AtomicU64};
use crate::sched;
use crate::util::sync_cell::{SyncCell, TearableAtomic};

struct TearableTime {
    secs: AtomicU64,
    nanos: AtomicU32,
}
impl TearableAtomic for TearableTime {
    type Value = (u64, u32);
    fn tearable_load(&self) -> (u64, u32) {
        (self.secs.load(Ordering::Relaxed), self.nanos.load(Ordering::Relaxed))
    }
    fn tearable_store(&self, v: (u64, u32)) {
        self.secs.store(v.0, Ordering::Relaxed);
        self.nanos.store(v.1, Ordering::Relaxed);
    }
}

/// sl <nreaders> <attempts> <a0> <b0> V <k> (a b)* S <schedule...>
/// prints "<verdict> | <decisions> | <outputs per reader> | <orderings of thread 0 ; of thread 1>"
pub(crate) fn run(w: &[&str]) -> String {
    let nreaders: usize = w[0].parse().unwrap();
    let attempts: usize = w[1].parse().unwrap();
    let v0: (u64, u32) = (w[2].parse().unwrap(), w[3].parse().unwrap());
    assert_eq!(w[4], "V");
    let k: usize = w[5].parse().unwrap();
    let mut vals = Vec::new();
    for i in 0..k {
        vals.push((w[6 + 2 * i].parse::<u64>().unwrap(), w[7 + 2 * i].parse::<u32>().unwrap()));
    }
    let spos = 6 + 2 * k;
    assert_eq!(w[spos], "S");
    let schedule: Vec<usize> = w[spos + 1..].iter().map(|x| x.parse().unwrap()).collect();
    let cell = SyncCell::new(TearableTime {
        secs: AtomicU64::new(v0.0),
        nanos: AtomicU32::new(v0.1),
    });
    let outs: Arc<StdMutex<Vec<Vec<(u64, u32)>>>> = Arc::new(StdMutex::new(vec![Vec::new(); nreaders]));
    let mut threads: Vec<Box<dyn FnOnce() + Send>> = Vec::new();
    let readers: Vec<_> = (0..nreaders).map(|_| cell.reader()).collect();
    let vals2 = vals.clone();
    threads.push(Box::new(move || {
        for v in vals2 {
            cell.write(v);
        }
    }));
    for (i, r) in readers.into_iter().enumerate() {
        let outs = outs.clone();
        threads.push(Box::new(move || {
            for _ in 0..attempts {
                if let Ok(v) = r.try_read() {
                    outs.lock().unwrap()[i].push(v);
                }
            }
        }));
    }
    let r = sched::run(threads, &schedule, 5000);
    let outs = outs.lock().unwrap().clone();
    // oracle from the property text: every value read is the initial value or a written one, and
    // per reader the positions in the write order never decrease
    let mut all = vec![v0];
    all.extend(vals.iter().copied());
    let mut verdict = Vec::new();
    if r.budget_exceeded {
        verdict.push("BUDGET".to_string());
    }
    for (i, o) in outs.iter().enumerate() {
        let mut last = 0usize;
        for v in o {
            // earliest index >= last holding v (values may repeat)
            match (last..all.len()).find(|&j| all[j] == *v) {
                Some(j) => last = j,
                None => {
                    if all.contains(v) {
                        verdict.push(format!("BACKWARDS-r{}-{}:{}", i, v.0, v.1));
                    } else {
                        verdict.push(format!("TORN-r{}-{}:{}", i, v.0, v.1));
                    }
                }
            }
        }
    }
    let ords = |t: usize| -> String {
        r.trace
            .iter()
            .filter_map(|e| match e {
                sched::Event::Atomic { th, kind, ord, .. } if *th == t => Some(format!("{}-{}", kind, ord)),
                sched::Event::Fence { th, ord } if *th == t => Some(format!("fence-{}", ord)),
                _ => None,
            })
            .collect::<Vec<_>>()
            .join(",")
    };
    let v = if verdict.is_empty() { "OK".to_string() } else { verdict.join(",") };
    format!(
        "{} | {} | {} | {} ; {}",
        v,
        r.decisions.iter().map(|d| d.to_string()).collect::<Vec<_>>().join(" "),
        outs.iter()
            .map(|o| o.iter().map(|(a, b)| format!("{}:{}", a, b)).collect::<Vec<_>>().join(","))
            .collect::<Vec<_>>()
            .join(";"),
        ords(0),
        if nreaders > 0 { ords(1) } else { String::new() }
    )
}
