//! Scenarios on the real mailbox queue (mirrored channel/queue.rs): sequential operation
//! sequences and controlled concurrent schedules.  Lives in `crate::channel` (via #[path]) because
//! the queue API is pub(super).
use std::sync::atomic::{AtomicUsize, Ordering as O};
use std::sync::{Arc, Mutex as StdMutex};

use recycle_box::RecycleBox;

use super::queue::{PopError, PushError, Queue};
use crate::sched;

/// q <cap> ops...   ops: u,<v> push | o pop+release | h pop and hold | r release held | c close |
/// l len | z is_closed
pub(crate) fn run_seq(w: &[&str]) -> String {
    let cap: usize = w[0].parse().unwrap();
    let q: Queue<i64> = Queue::new(cap);
    let mut out = Vec::new();
    let mut held = None;
    for op in &w[1..] {
        let f: Vec<&str> = op.split(',').collect();
        match f[0] {
            "u" => {
                let v: i64 = f[1].parse().unwrap();
                out.push(match q.push(move |b| RecycleBox::recycle(b, v)) {
                    Ok(()) => "ok".to_string(),
                    Err(PushError::Full(_)) => "full".to_string(),
                    Err(PushError::Closed) => "closed".to_string(),
                });
            }
            "o" | "h" => {
                if held.is_some() {
                    // one consumer, one outstanding borrow
                    out.push("busy".to_string());
                    continue;
                }
                match unsafe { q.pop() } {
                    Ok(b) => {
                        out.push(format!("v,{}", *b));
                        if f[0] == "h" {
                            held = Some(b);
                        }
                    }
                    Err(PopError::Empty) => out.push("empty".to_string()),
                    Err(PopError::Closed) => out.push("closed".to_string()),
                }
            }
            "r" => {
                out.push(if held.take().is_some() { "rel" } else { "none" }.to_string());
            }
            "c" => {
                q.close();
                out.push("-".to_string());
            }
            "l" => out.push(format!("l,{}", q.len())),
            "z" => out.push(format!("z,{}", q.is_closed() as u8)),
            _ => panic!("bad op"),
        }
    }
    drop(held);
    out.join(" ")
}

/// qc <cap> <nprod> <pushes_per_producer> <npops> <close_by: -1 none | thread id> S <schedule...>
/// Threads 0..nprod-1 push values (p*100+i), retrying a Full push up to 3 times; thread nprod pops
/// npops times (releasing each borrow at once).  Returns "<verdict> | trace...".
pub(crate) fn run_conc(w: &[&str]) -> String {
    let cap: usize = w[0].parse().unwrap();
    let nprod: usize = w[1].parse().unwrap();
    let per: usize = w[2].parse().unwrap();
    let npops: usize = w[3].parse().unwrap();
    let close_by: i64 = w[4].parse().unwrap();
    let spos = w.iter().position(|x| *x == "S").unwrap();
    let schedule: Vec<usize> = w[spos + 1..].iter().map(|x| x.parse().unwrap()).collect();
    let q: Arc<Queue<i64>> = Arc::new(Queue::new(cap));
    let events: Arc<StdMutex<Vec<(usize, String, i64)>>> = Arc::new(StdMutex::new(Vec::new()));
    let occupancy = Arc::new(AtomicUsize::new(0));
    let max_occ = Arc::new(AtomicUsize::new(0));
    let mut threads: Vec<Box<dyn FnOnce() + Send>> = Vec::new();
    for p in 0..nprod {
        let q = q.clone();
        let ev = events.clone();
        let occ = occupancy.clone();
        let mx = max_occ.clone();
        threads.push(Box::new(move || {
            for i in 0..per {
                let v = (p * 100 + i) as i64;
                let mut tries = 0;
                loop {
                    // occupancy is counted from before a push attempt to after the pop's release
                    match q.push(move |b| RecycleBox::recycle(b, v)) {
                        Ok(()) => {
                            let o = occ.fetch_add(1, O::SeqCst) + 1;
                            mx.fetch_max(o, O::SeqCst);
                            ev.lock().unwrap().push((p, "push".into(), v));
                            sched::ghost(format!("push-ok {}", v));
                            break;
                        }
                        Err(PushError::Full(_)) => {
                            sched::ghost(format!("push-full {}", v));
                            tries += 1;
                            if tries >= 3 {
                                ev.lock().unwrap().push((p, "gaveup".into(), v));
                                break;
                            }
                        }
                        Err(PushError::Closed) => {
                            ev.lock().unwrap().push((p, "push-closed".into(), v));
                            sched::ghost(format!("push-closed {}", v));
                            break;
                        }
                    }
                }
            }
            if close_by == p as i64 {
                q.close();
                ev.lock().unwrap().push((p, "close".into(), 0));
                sched::ghost("close");
            }
        }));
    }
    {
        let q = q.clone();
        let ev = events.clone();
        let occ = occupancy.clone();
        threads.push(Box::new(move || {
            for _ in 0..npops {
                match unsafe { q.pop() } {
                    Ok(b) => {
                        let v = *b;
                        drop(b);
                        occ.fetch_sub(1, O::SeqCst);
                        ev.lock().unwrap().push((nprod, "pop".into(), v));
                        sched::ghost(format!("pop {}", v));
                    }
                    Err(PopError::Empty) => {
                        ev.lock().unwrap().push((nprod, "pop-empty".into(), 0));
                        sched::ghost("pop-empty");
                    }
                    Err(PopError::Closed) => {
                        ev.lock().unwrap().push((nprod, "pop-closed".into(), 0));
                        sched::ghost("pop-closed");
                    }
                }
            }
            if close_by == nprod as i64 {
                q.close();
                ev.lock().unwrap().push((nprod, "close".into(), 0));
            }
        }));
    }
    let r = sched::run(threads, &schedule, 4000);
    // ---- oracle (written from the property text)
    let evs = events.lock().unwrap().clone();
    let mut verdict = Vec::new();
    if r.budget_exceeded {
        verdict.push("BUDGET".to_string());
    }
    if r.deadlock {
        verdict.push("STUCK".to_string());
    }
    for (t, m) in &r.panics {
        verdict.push(format!("PANIC-t{}-{}", t, m.replace(' ', "_")));
    }
    let pushed: Vec<i64> = evs.iter().filter(|e| e.1 == "push").map(|e| e.2).collect();
    let popped: Vec<i64> = evs.iter().filter(|e| e.1 == "pop").map(|e| e.2).collect();
    // each exactly once, nothing invented
    for v in &popped {
        if popped.iter().filter(|x| *x == v).count() > 1 {
            verdict.push(format!("DUPLICATE-{}", v));
        }
        if !(0..nprod).any(|p| (0..per).any(|i| (p * 100 + i) as i64 == *v)) {
            verdict.push(format!("INVENTED-{}", v));
        }
    }
    // per-producer order
    for p in 0..nprod {
        let seq: Vec<i64> = popped.iter().copied().filter(|v| (*v / 100) as usize == p).collect();
        if seq.windows(2).any(|w| w[0] >= w[1]) {
            verdict.push(format!("REORDERED-p{}", p));
        }
        // a popped value implies all earlier accepted values of that producer were popped before
        let acc: Vec<i64> = pushed.iter().copied().filter(|v| (*v / 100) as usize == p).collect();
        for (k, v) in seq.iter().enumerate() {
            if acc.get(k) != Some(v) && acc.contains(v) {
                verdict.push(format!("SKIPPED-p{}", p));
                break;
            }
        }
    }
    if max_occ.load(O::SeqCst) > cap {
        verdict.push(format!("OVER-CAPACITY-{}", max_occ.load(O::SeqCst)));
    }
    // quiescent length and draining: everything accepted and not yet popped is still receivable
    let remaining = pushed.len() as i64 - popped.len() as i64;
    if remaining < 0 {
        verdict.push("POPPED-MORE-THAN-PUSHED".to_string());
    }
    if q.len() as i64 != remaining {
        verdict.push(format!("LEN-{}-EXPECTED-{}", q.len(), remaining));
    }
    let mut drained = Vec::new();
    loop {
        match unsafe { q.pop() } {
            Ok(b) => drained.push(*b),
            Err(PopError::Empty) => {
                break;
            }
            Err(PopError::Closed) => {
                break;
            }
        }
    }
    // Closed is final: it may be reported only once every accepted message has been received
    if let Some(pos) = evs.iter().position(|e| e.1 == "pop-closed") {
        if evs[pos..].iter().any(|e| e.1 == "push" || e.1 == "pop") || !drained.is_empty() {
            verdict.push("CLOSED-BEFORE-DRAINED".to_string());
        }
    }
    if drained.len() as i64 != remaining {
        verdict.push(format!("LOST-{}", remaining - drained.len() as i64));
    }
    // after close pushes fail
    if close_by >= 0 {
        if q.push(|b| RecycleBox::recycle(b, 1i64)).is_ok() {
            verdict.push("PUSH-AFTER-CLOSE-ACCEPTED".to_string());
        }
    }
    let v = if verdict.is_empty() {
        "OK".to_string()
    } else {
        verdict.join(",")
    };
    format!("{} | {}", v, sched::render(&r.trace).join(" ; "))
}
