//! Scenarios on the real task implementation (verbatim mirror of executor/task.rs and task/*.rs)
//! under the deterministic scheduler: threads run scripts of handle operations; the polled future is
//! scripted.  An oracle written from the property text judges each run.
//!
//! task <p|f> <future script> <nthreads> <ops t0> <ops t1> [<ops t2>] S <schedule...>
//!   p = spawn (with Promise), f = spawn_and_forget
//!   future script: one letter per poll: P pending | W wake own waker by ref, pending |
//!                  C cancel own task (token), pending | R ready | X panic
//!     (on its first poll the future stashes a clone of its waker; its Drop wakes the stash when the
//!      script contains 'D')
//!   ops (comma separated, '-' for none): run | dropr | wake | wakeref | clone | dropw | cancel |
//!                  droptok | pollp | dropp
use std::future::Future;
use std::pin::Pin;
use std::sync::atomic::{AtomicBool, AtomicUsize, Ordering as O};
use std::sync::Mutex as StdMutex;
use std::task::{Context, Poll, Waker};

use crate::executor::task::{self, CancelToken, Promise, Runnable};
use crate::sched;

static RUNQ: StdMutex<Vec<Runnable>> = StdMutex::new(Vec::new());
static STASH: StdMutex<Vec<Waker>> = StdMutex::new(Vec::new());
static TOKEN: StdMutex<Option<CancelToken>> = StdMutex::new(None);
static PROMISE: StdMutex<Option<Promise<Out>>> = StdMutex::new(None);
static VERDICT: StdMutex<Vec<String>> = StdMutex::new(Vec::new());

static FUT_DROPS: AtomicUsize = AtomicUsize::new(0);
static OUT_DROPS: AtomicUsize = AtomicUsize::new(0);
static OUT_MADE: AtomicUsize = AtomicUsize::new(0);
static POLLS: AtomicUsize = AtomicUsize::new(0);
static IN_POLL: AtomicBool = AtomicBool::new(false);
static ENDED: AtomicBool = AtomicBool::new(false); // completed, panicked or dropped
static SCHEDULED: AtomicUsize = AtomicUsize::new(0);
static WAKE_ON_DROP: AtomicBool = AtomicBool::new(false);

fn flag(s: &str) {
    VERDICT.lock().unwrap().push(s.to_string());
    sched::ghost(format!("!!{}", s));
}

fn schedule_fn(r: Runnable, _tag: usize) {
    SCHEDULED.fetch_add(1, O::SeqCst);
    sched::ghost("schedule");
    RUNQ.lock().unwrap().push(r);
}

pub struct Out;
impl Drop for Out {
    fn drop(&mut self) {
        if OUT_DROPS.fetch_add(1, O::SeqCst) >= OUT_MADE.load(O::SeqCst) {
            flag("OUTPUT-DROPPED-TWICE");
        }
        sched::ghost("drop-output");
    }
}

struct ScriptFut {
    script: Vec<char>,
    pos: usize,
    stashed: bool,
}
impl Future for ScriptFut {
    type Output = Out;
    fn poll(mut self: Pin<&mut Self>, cx: &mut Context<'_>) -> Poll<Out> {
        if IN_POLL.swap(true, O::SeqCst) {
            flag("POLL-OVERLAP");
        }
        if ENDED.load(O::SeqCst) {
            flag("POLL-AFTER-END");
        }
        POLLS.fetch_add(1, O::SeqCst);
        sched::ghost("poll-begin");
        if !self.stashed {
            self.stashed = true;
            let w = cx.waker().clone();
            STASH.lock().unwrap().push(w);
        }
        let c = if self.pos < self.script.len() { self.script[self.pos] } else { 'P' };
        self.pos += 1;
        let r = match c {
            'W' => {
                cx.waker().wake_by_ref();
                Poll::Pending
            }
            'C' => {
                let t = TOKEN.lock().unwrap().take();
                if let Some(t) = t {
                    t.cancel();
                }
                Poll::Pending
            }
            'R' => {
                ENDED.store(true, O::SeqCst);
                OUT_MADE.fetch_add(1, O::SeqCst);
                Poll::Ready(Out)
            }
            'X' => {
                ENDED.store(true, O::SeqCst);
                sched::ghost("poll-panic");
                IN_POLL.store(false, O::SeqCst);
                panic!("scripted panic");
            }
            _ => Poll::Pending,
        };
        sched::ghost("poll-end");
        IN_POLL.store(false, O::SeqCst);
        r
    }
}
impl Drop for ScriptFut {
    fn drop(&mut self) {
        ENDED.store(true, O::SeqCst);
        if FUT_DROPS.fetch_add(1, O::SeqCst) >= 1 {
            flag("FUTURE-DROPPED-TWICE");
        }
        sched::ghost("drop-future");
        if WAKE_ON_DROP.load(O::SeqCst) {
            let w = stash_clone_first();
            if let Some(w) = w {
                w.wake_by_ref();
                drop(w);
            }
        }
    }
}

/// Clones the first stashed waker WITHOUT holding the stash lock across the clone (cloning is an
/// instrumented atomic operation, i.e. a step point: a thread parked there while holding a plain
/// mutex would block the others outside any step point).
fn stash_clone_first() -> Option<Waker> {
    let w0 = {
        let mut g = STASH.lock().unwrap();
        if g.is_empty() {
            None
        } else {
            Some(g.remove(0))
        }
    };
    match w0 {
        Some(w0) => {
            let w = w0.clone();
            STASH.lock().unwrap().insert(0, w0);
            Some(w)
        }
        None => None,
    }
}

fn do_op(op: &str) {
    sched::ghost(format!("op:{}", op));
    match op {
        "run" => {
            let r = RUNQ.lock().unwrap().pop();
            if let Some(r) = r {
                sched::ghost("run");
                let res = std::panic::catch_unwind(std::panic::AssertUnwindSafe(|| r.run()));
                if res.is_err() {
                    sched::ghost("run-panicked");
                }
            }
        }
        "dropr" => {
            let r = RUNQ.lock().unwrap().pop();
            if let Some(r) = r {
                sched::ghost("drop-runnable");
                drop(r);
            }
        }
        "wake" => {
            let w = STASH.lock().unwrap().pop();
            if let Some(w) = w {
                sched::ghost("wake");
                w.wake();
            }
        }
        "wakeref" => {
            let w = stash_clone_first();
            // cloning is itself a handle operation (fetch_add); wake by reference, then drop the clone
            if let Some(w) = w {
                sched::ghost("wakeref");
                w.wake_by_ref();
                drop(w);
            }
        }
        "clone" => {
            let w = stash_clone_first();
            if let Some(w) = w {
                STASH.lock().unwrap().push(w);
            }
        }
        "dropw" => {
            let w = STASH.lock().unwrap().pop();
            drop(w);
        }
        "cancel" => {
            let t = TOKEN.lock().unwrap().take();
            if let Some(t) = t {
                sched::ghost("cancel");
                t.cancel();
            }
        }
        "droptok" => {
            let t = TOKEN.lock().unwrap().take();
            drop(t);
        }
        "pollp" => {
            let p = PROMISE.lock().unwrap().take();
            if let Some(p) = p {
                let st = p.poll();
                sched::ghost(format!(
                    "promise-{}",
                    if st.is_ready() { "ready" } else if st.is_cancelled() { "cancelled" } else { "pending" }
                ));
                drop(st);
                *PROMISE.lock().unwrap() = Some(p);
            }
        }
        "dropp" => {
            let p = PROMISE.lock().unwrap().take();
            drop(p);
        }
        _ => {}
    }
}

pub(crate) fn run(w: &[&str]) -> String {
    // reset
    RUNQ.lock().unwrap().clear();
    STASH.lock().unwrap().clear();
    *TOKEN.lock().unwrap() = None;
    *PROMISE.lock().unwrap() = None;
    VERDICT.lock().unwrap().clear();
    for c in [&FUT_DROPS, &OUT_DROPS, &OUT_MADE, &POLLS, &SCHEDULED] {
        c.store(0, O::SeqCst);
    }
    IN_POLL.store(false, O::SeqCst);
    ENDED.store(false, O::SeqCst);
    let with_promise = w[0] == "p";
    let script: Vec<char> = w[1].chars().filter(|c| *c != 'D').collect();
    WAKE_ON_DROP.store(w[1].contains('D'), O::SeqCst);
    let nth: usize = w[2].parse().unwrap();
    let spos = w.iter().position(|x| *x == "S").unwrap();
    let schedule: Vec<usize> = w[spos + 1..].iter().map(|x| x.parse().unwrap()).collect();
    let fut = ScriptFut {
        script,
        pos: 0,
        stashed: false,
    };
    // spawning happens outside the controlled run (not part of the explored interleavings)
    sched::record_allocs(true);
    if with_promise {
        let (p, r, t) = task::spawn(fut, schedule_fn, 0usize);
        sched::record_allocs(false);
        *PROMISE.lock().unwrap() = Some(p);
        *TOKEN.lock().unwrap() = Some(t);
        RUNQ.lock().unwrap().push(r);
    } else {
        let (r, t) = task::spawn_and_forget(fut, schedule_fn, 0usize);
        sched::record_allocs(false);
        *TOKEN.lock().unwrap() = Some(t);
        RUNQ.lock().unwrap().push(r);
    }
    sched::record_allocs(false);
    sched::watch_largest_recorded();
    let mut threads: Vec<Box<dyn FnOnce() + Send>> = Vec::new();
    for t in 0..nth {
        let ops: Vec<String> = w[3 + t].split(',').filter(|o| *o != "-").map(|s| s.to_string()).collect();
        threads.push(Box::new(move || {
            for op in ops {
                do_op(&op);
            }
        }));
    }
    let r = sched::run(threads, &schedule, 3000);
    // ---- end of the explored part; the rest runs uncontrolled on this thread
    let polls_before = POLLS.load(O::SeqCst);
    // a wake-up issued while the future is pending must lead to another poll: wake whatever waker
    // is left and drain the run queue
    if !ENDED.load(O::SeqCst) {
        let w = stash_clone_first();
        if let Some(w) = w {
            w.wake_by_ref();
            drop(w);
            loop {
                let r = RUNQ.lock().unwrap().pop();
                match r {
                    Some(r) => {
                        let _ = std::panic::catch_unwind(std::panic::AssertUnwindSafe(|| r.run()));
                    }
                    None => break,
                }
            }
            if !ENDED.load(O::SeqCst) && POLLS.load(O::SeqCst) == polls_before {
                flag("LOST-WAKE");
            }
        }
    }
    // release every remaining handle: afterwards everything must have been released exactly once
    loop {
        let r = RUNQ.lock().unwrap().pop();
        match r {
            Some(r) => drop(r),
            None => break,
        }
    }
    loop {
        let w = STASH.lock().unwrap().pop();
        match w {
            Some(w) => drop(w),
            None => break,
        }
    }
    let t = TOKEN.lock().unwrap().take();
    drop(t);
    let p = PROMISE.lock().unwrap().take();
    drop(p);
    // a drop of the last handles may have scheduled nothing new
    loop {
        let r = RUNQ.lock().unwrap().pop();
        match r {
            Some(r) => drop(r),
            None => break,
        }
    }
    loop {
        let w = STASH.lock().unwrap().pop();
        match w {
            Some(w) => drop(w),
            None => break,
        }
    }
    let (deallocs, uaf, dbl) = sched::dealloc_stats();
    let mut v = VERDICT.lock().unwrap().clone();
    if r.budget_exceeded {
        v.push("BUDGET".into());
    }
    if r.deadlock {
        v.push("STUCK".into());
    }
    for (t, m) in &r.panics {
        v.push(format!("PANIC-t{}-{}", t, m.replace(' ', "_")));
    }
    if FUT_DROPS.load(O::SeqCst) != 1 {
        v.push(format!("FUTURE-DROPS-{}", FUT_DROPS.load(O::SeqCst)));
    }
    if OUT_DROPS.load(O::SeqCst) != OUT_MADE.load(O::SeqCst) {
        v.push(format!("OUTPUT-DROPS-{}-OF-{}", OUT_DROPS.load(O::SeqCst), OUT_MADE.load(O::SeqCst)));
    }
    if deallocs != 1 {
        v.push(format!("DEALLOCS-{}", deallocs));
    }
    if uaf > 0 {
        v.push(format!("USE-AFTER-FREE-{}", uaf));
    }
    if dbl > 0 {
        v.push("DOUBLE-FREE".into());
    }
    v.sort();
    v.dedup();
    let verdict = if v.is_empty() { "OK".to_string() } else { v.join(",") };
    format!(
        "{} | polls={} sched={} | {}",
        verdict,
        POLLS.load(O::SeqCst),
        SCHEDULED.load(O::SeqCst),
        sched::render(&r.trace).join(" ; ")
    )
}
