//! Verbatim diatomic-waker (waker.rs, borrowed_waker.rs, arc_waker.rs of the crate version pinned by /repo; only the
//! crate-root path is rewritten) over the instrumented primitives of the harness.
#![allow(dead_code, unused_imports)]
mod arc_waker;
mod borrowed_waker;
pub(crate) mod loom_exports;
mod waker;

pub use arc_waker::{WakeSink, WakeSource};
pub use borrowed_waker::{WakeSinkRef, WakeSourceRef};
pub use waker::{DiatomicWaker, WaitUntil};
