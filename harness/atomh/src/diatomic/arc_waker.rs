use alloc::sync::Arc;
use core::task::Waker;

use crate::diatomic::DiatomicWaker;
use crate::diatomic::WaitUntil;

/// An owned object that can await notifications from one or several
/// [`WakeSource`]s.
///
/// See the [crate-level documentation](crate) for usage.
#[derive(Debug, Default)]
pub struct WakeSink {
    /// The shared data.
    inner: Arc<DiatomicWaker>,
}

impl WakeSink {
    /// Creates a new sink.
    pub fn new() -> Self {
        Self {
            inner: Arc::new(DiatomicWaker::new()),
        }
    }

    /// Creates an owned source.
    #[inline]
    pub fn source(&self) -> WakeSource {
        WakeSource {
            inner: self.inner.clone(),
        }
    }

    /// Registers a new waker.
    ///
    /// Registration is lazy: the waker is cloned only if it differs from the
    /// last registered waker (note that the last registered waker is cached
    /// even if it was unregistered).
    #[inline]
    pub fn register(&mut self, waker: &Waker) {
        // Safety: `DiatomicWaker::register`, `DiatomicWaker::unregister` and
        // `DiatomicWaker::wait_until` cannot be used concurrently from multiple
        // thread since `WakeSink` does not implement `Clone` and the wrappers
        // of the above methods require exclusive ownership to `WakeSink`.
        unsafe { self.inner.register(waker) };
    }

    /// Unregisters the waker.
    ///
    /// After the waker is unregistered, subsequent calls to
    /// `WakeSource::notify` will be ignored.
    ///
    /// Note that the previously-registered waker (if any) remains cached.
    #[inline]
    pub fn unregister(&mut self) {
        // Safety: `DiatomicWaker::register`, `DiatomicWaker::unregister` and
        // `DiatomicWaker::wait_until` cannot be used concurrently from multiple
        // thread since `WakeSink` does not implement `Clone` and the wrappers
        // of the above methods require exclusive ownership to `WakeSink`.
        unsafe { self.inner.unregister() };
    }

    /// Returns a future that can be `await`ed until the provided predicate
    /// returns a value.
    ///
    /// The predicate is checked each time a notification is received.
    #[inline]
    pub fn wait_until<P, T>(&mut self, predicate: P) -> WaitUntil<'_, P, T>
    where
        P: FnMut() -> Option<T>,
    {
        // Safety: `DiatomicWaker::register`, `DiatomicWaker::unregister` and
        // `DiatomicWaker::wait_until` cannot be used concurrently from multiple
        // thread since `WakeSink` does not implement `Clone` and the wrappers
        // of the above methods require exclusive ownership to `WakeSink`.
        unsafe { self.inner.wait_until(predicate) }
    }
}

/// An owned object that can send notifications to a [`WakeSink`].
///
/// See the [crate-level documentation](crate) for usage.
#[derive(Clone, Debug)]
pub struct WakeSource {
    /// The shared data.
    inner: Arc<DiatomicWaker>,
}

impl WakeSource {
    /// Notifies the sink if a waker is registered.
    ///
    /// This automatically unregisters any waker that may have been previously
    /// registered.
    #[inline]
    pub fn notify(&self) {
        self.inner.notify();
    }
}
