use core::task::Waker;

use crate::diatomic::{DiatomicWaker, WaitUntil};

/// A non-owned object that can await notifications from one or several
/// [`WakeSourceRef`]s.
///
/// See the [crate-level documentation](crate) for usage.
#[derive(Debug)]
pub struct WakeSinkRef<'a> {
    /// The shared data.
    pub(crate) inner: &'a DiatomicWaker,
}

impl<'a> WakeSinkRef<'a> {
    /// Creates a new `WakeSourceRef` associated to this sink with the same
    /// lifetime.
    #[inline]
    pub fn source_ref(&self) -> WakeSourceRef<'a> {
        WakeSourceRef { inner: self.inner }
    }

    /// Registers a new waker.
    ///
    /// Registration is lazy: the waker is cloned only if it differs from the
    /// last registered waker (note that the last registered waker is cached
    /// even if it was unregistered).
    #[inline]
    pub fn register(&mut self, waker: &Waker) {
        // Safety: `DiatomicWaker::register`, `DiatomicWaker::unregister` and
        // `DiatomicWaker::wait_until` cannot be used concurrently from multiple
        // thread since `WakeSinkRef` does not implement `Clone` and the
        // wrappers of the above methods require exclusive ownership to
        // `WakeSinkRef`.
        unsafe { self.inner.register(waker) };
    }

    /// Unregisters the waker.
    ///
    /// After the waker is unregistered, subsequent calls to
    /// `WakeSourceRef::notify` will be ignored.
    ///
    /// Note that the previously-registered waker (if any) remains cached.
    #[inline]
    pub fn unregister(&mut self) {
        // Safety: `DiatomicWaker::register`, `DiatomicWaker::unregister` and
        // `DiatomicWaker::wait_until` cannot be used concurrently from multiple
        // thread since `WakeSinkRef` does not implement `Clone` and the
        // wrappers of the above methods require exclusive ownership to
        // `WakeSinkRef`.
        unsafe { self.inner.unregister() };
    }

    /// Returns a future that can be `await`ed until the provided predicate
    /// returns a value.
    ///
    /// The predicate is checked each time a notification is received.
    #[inline]
    pub fn wait_until<P, T>(&mut self, predicate: P) -> WaitUntil<'_, P, T>
    where
        P: FnMut() -> Option<T>,
    {
        // Safety: `DiatomicWaker::register`, `DiatomicWaker::unregister` and
        // `DiatomicWaker::wait_until` cannot be used concurrently from multiple
        // thread since `WakeSinkRef` does not implement `Clone` and the
        // wrappers of the above methods require exclusive ownership to
        // `WakeSinkRef`.
        unsafe { self.inner.wait_until(predicate) }
    }
}

/// A non-owned object that can send notifications to a [`WakeSinkRef`].
///
/// See the [crate-level documentation](crate) for usage.
#[derive(Clone, Debug)]
pub struct WakeSourceRef<'a> {
    /// The shared data.
    pub(crate) inner: &'a DiatomicWaker,
}

impl WakeSourceRef<'_> {
    /// Notifies the sink if a waker is registered.
    ///
    /// This automatically unregisters any waker that may have been previously
    /// registered.
    #[inline]
    pub fn notify(&self) {
        self.inner.notify();
    }
}
