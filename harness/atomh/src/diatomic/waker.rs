use core::future::Future;
use core::pin::Pin;
use core::sync::atomic::Ordering;
use core::task::{Context, Poll, Waker};

use crate::diatomic::loom_exports::cell::UnsafeCell;
use crate::diatomic::loom_exports::sync::atomic::AtomicUsize;
use crate::diatomic::WakeSinkRef;

// The state of the waker is tracked by the following bit flags:
//
// * INDEX [I]: slot index of the current waker, if any (0 or 1),
// * UPDATE [U]: an updated waker has been registered in the redundant slot at
//   index 1 - INDEX,
// * REGISTERED [R]: a waker is registered and awaits a notification
// * LOCKED [L]: a notifier has taken the notifier lock and is in the process of
//   sending a notification,
// * NOTIFICATION [N]: a notifier has failed to take the lock when a waker was
//   registered and has requested the notifier holding the lock to send a
//   notification on its behalf (implies REGISTERED and LOCKED).
//
// The waker stored in the slot at INDEX ("current" waker) is shared between the
// sink (entity which registers wakers) and the source that holds the notifier
// lock (if any). For this reason, this waker may only be accessed by shared
// reference. The waker at 1 - INDEX is exclusively owned by the sink, which is
// free to mutate it.

// Summary of valid states:
//
// |  N   L   R   U   I  |
// |---------------------|
// |  0  any any any any |
// |  1   1   1  any any |

// [I] Index of the current waker (0 or 1).
const INDEX: usize = 0b00001;
// [U] Indicates that an updated waker is available at 1 - INDEX.
const UPDATE: usize = 0b00010;
// [R] Indicates that a waker has been registered.
const REGISTERED: usize = 0b00100;
// [L] Indicates that a notifier holds the notifier lock to the waker at INDEX.
const LOCKED: usize = 0b01000;
// [N] Indicates that a notifier has failed to acquire the lock and has
// requested the notifier holding the lock to notify on its behalf.
const NOTIFICATION: usize = 0b10000;

/// A primitive that can send or await notifications.
///
/// It is almost always preferable to use the [`WakeSink`](crate::diatomic::WakeSink) and
/// [`WakeSource`](crate::diatomic::WakeSource) which offer more convenience at the cost
/// of an allocation in an `Arc`.
///
/// If allocation is not possible or desirable, the
/// [`sink_ref`](DiatomicWaker::sink_ref) method can be used to create a
/// [`WakeSinkRef`] handle and one or more
/// [`WakeSourceRef`](crate::diatomic::borrowed_waker::WakeSourceRef)s, the non-owned
/// counterparts to `WakeSink` and `WakeSource`.
///
/// Finally, `DiatomicWaker` exposes `unsafe` methods that can be used to create
/// custom synchronization primitives.
#[derive(Debug)]
pub struct DiatomicWaker {
    /// A bit field for `INDEX`, `UPDATE`, `REGISTERED`, `LOCKED` and `NOTIFICATION`.
    state: AtomicUsize,
    /// Redundant slots for the waker.
    waker: [UnsafeCell<Option<Waker>>; 2],
}

impl DiatomicWaker {
    /// Creates a new `DiatomicWaker`.
    #[cfg(not(all(test, diatomic_waker_loom)))]
    pub const fn new() -> Self {
        Self {
            state: AtomicUsize::new(0),
            waker: [UnsafeCell::new(None), UnsafeCell::new(None)],
        }
    }

    #[cfg(all(test, diatomic_waker_loom))]
    pub fn new() -> Self {
        Self {
            state: AtomicUsize::new(0),
            waker: [UnsafeCell::new(None), UnsafeCell::new(None)],
        }
    }

    /// Returns a sink with a lifetime bound to this `DiatomicWaker`.
    ///
    /// This mutably borrows the waker, thus ensuring that at most one
    /// associated sink can be active at a time.
    pub fn sink_ref(&mut self) -> WakeSinkRef<'_> {
        WakeSinkRef { inner: self }
    }

    /// Sends a notification if a waker is registered.
    ///
    /// This automatically unregisters any waker that may have been previously
    /// registered.
    pub fn notify(&self) {
        // Transitions: see `try_lock` and `try_unlock`.

        let mut state = if let Ok(s) = try_lock(&self.state) {
            s
        } else {
            return;
        };

        loop {
            let idx = state & INDEX;

            // Safety: the notifier lock has been acquired, which guarantees
            // exclusive access to the waker at `INDEX`.
            unsafe {
                self.wake_by_ref(idx);
            }

            if let Err(s) = try_unlock(&self.state, state) {
                state = s;
            } else {
                return;
            }

            // One more loop iteration is necessary because the waker was
            // registered again and another notifier has failed to send a
            // notification while the notifier lock was taken.
        }
    }

    /// Registers a new waker.
    ///
    /// Registration is lazy: the waker is cloned only if it differs from the
    /// last registered waker (note that the last registered waker is cached
    /// even if it was unregistered).
    ///
    /// # Safety
    ///
    /// The `register`, `unregister` and `wait_until` methods cannot be used
    /// concurrently from multiple threads.
    pub unsafe fn register(&self, waker: &Waker) {
        // Transitions if the new waker is the same as the one currently stored.
        //
        // |  N  L  R  U  I  |  N  L  R  U  I  |
        // |-----------------|-----------------|
        // |  n  l  r  u  i  |  n  l  1  u  i  |
        //
        //
        // Transitions if the new waker needs to be stored:
        //
        // Step 1 (only necessary if the state initially indicates R=U=1):
        //
        // |  N  L  R  U  I  |  N  L  R  U  I  |
        // |-----------------|-----------------|
        // |  n  l  r  u  i  |  0  l  0  u  i  |
        //
        // Step 2:
        //
        // |  N  L  R  U  I  |  N  L  R  U  I  |
        // |-----------------|-----------------|
        // |  n  l  r  u  i  |  n  l  1  1  i  |

        // Ordering: Acquire ordering is necessary to synchronize with the
        // Release unlocking operation in `notify`, which ensures that all calls
        // to the waker in the redundant slot have completed.
        let state = self.state.load(Ordering::Acquire);

        // Compute the index of the waker that was most recently updated. Note
        // that the value of `recent_idx` as computed below remains correct even
        // if the state is stale since only this thread can store new wakers.
        let mut idx = state & INDEX;
        let recent_idx = if state & UPDATE == 0 {
            idx
        } else {
            INDEX - idx
        };

        // Safety: it is safe to call `will_wake` since the registering thread
        // is the only one allowed to mutate the wakers so there can be no
        // concurrent mutable access to the waker.
        let is_up_to_date = self.will_wake(recent_idx, waker);

        // Fast path in case the waker is up to date.
        if is_up_to_date {
            // Set the `REGISTERED` flag. Ideally, the `NOTIFICATION` flag would
            // be cleared at the same time to avoid a spurious wake-up, but it
            // probably isn't worth the overhead of a CAS loop because having
            // this flag set when calling `register` is very unlikely: it would
            // mean that since the last call to `register`:
            // 1) a notifier has been holding the lock continuously,
            // 2) another notifier has tried and failed to take the lock, and
            // 3) `unregister` was never called.
            //
            // Ordering: Acquire ordering synchronizes with the Release and
            // AcqRel RMWs in `try_lock` (called by `notify`) and ensures that
            // either the predicate set before the call to `notify` will be
            // visible after the call to `register`, or the registered waker
            // will be visible during the call to `notify` (or both). Note that
            // Release ordering is not necessary since the waker has not changed
            // and this RMW takes part in a release sequence headed by the
            // initial registration of the waker.
            self.state.fetch_or(REGISTERED, Ordering::Acquire);

            return;
        }

        // The waker needs to be stored in the redundant slot.
        //
        // It is necessary to make sure that either the `UPDATE` or the
        // `REGISTERED` flag is cleared to prevent concurrent access by a notifier
        // to the redundant waker slot while the waker is updated.
        //
        // Note that only the thread registering the waker can set `REGISTERED`
        // and `UPDATE` so even if the state is stale, observing `REGISTERED` or
        // `UPDATE` as cleared guarantees that such flag is and will remain
        // cleared until this thread sets them.
        if state & (UPDATE | REGISTERED) == (UPDATE | REGISTERED) {
            // Clear the `REGISTERED` and `NOTIFICATION` flags.
            //
            // Ordering: Acquire ordering is necessary to synchronize with the
            // Release unlocking operation in `notify`, which ensures that all
            // calls to the waker in the redundant slot have completed.
            let state = self
                .state
                .fetch_and(!(REGISTERED | NOTIFICATION), Ordering::Acquire);

            // It is possible that `UPDATE` was cleared and `INDEX` was switched
            // by a notifier after the initial load of the state, so the waker
            // index needs to be updated.
            idx = state & INDEX;
        }

        // Always store the new waker in the redundant slot to avoid racing with
        // a notifier.
        let redundant_idx = 1 - idx;

        // Store the new waker.
        //
        // Safety: it is safe to store the new waker in the redundant slot
        // because the `REGISTERED` flag and/or the `UPDATE` flag are/is cleared
        // so the notifier will not attempt to switch the waker.
        self.set_waker(redundant_idx, waker.clone());

        // Make the waker visible.
        //
        // Ordering: Acquire ordering synchronizes with the Release and AcqRel
        // RMWs in `try_lock` (called by `notify`) and ensures that either the
        // predicate set before the call to `notify` will be visible after the
        // call to `register`, or the registered waker will be visible during
        // the call to `notify` (or both). Since the waker has been modified
        // above, Release ordering is also necessary to synchronize with the
        // AcqRel RMW in `try_lock` (success case) and ensure that the
        // modification to the waker is fully visible when notifying.
        self.state.fetch_or(UPDATE | REGISTERED, Ordering::AcqRel);
    }

    /// Unregisters the waker.
    ///
    /// After the waker is unregistered, subsequent calls to `notify` will be
    /// ignored.
    ///
    /// Note that the previously-registered waker (if any) remains cached.
    ///
    /// # Safety
    ///
    /// The `register`, `unregister` and `wait_until` methods cannot be used
    /// concurrently from multiple threads.
    pub unsafe fn unregister(&self) {
        // Transitions:
        //
        // |  N  L  R  U  I  |  N  L  R  U  I  |
        // |-----------------|-----------------|
        // |  n  l  r  u  i  |  0  l  0  u  i  |

        // Modify the state. Note that the waker is not dropped: caching it can
        // avoid a waker drop/cloning cycle (typically, 2 RMWs) in the frequent
        // case when the next waker to be registered will be the same as the one
        // being unregistered.
        //
        // Ordering: no waker was modified so Relaxed ordering is sufficient.
        self.state
            .fetch_and(!(REGISTERED | NOTIFICATION), Ordering::Relaxed);
    }

    /// Returns a future that can be `await`ed until the provided predicate
    /// returns a value.
    ///
    /// The predicate is checked each time a notification is received.
    ///
    /// # Safety
    ///
    /// The `register`, `unregister` and `wait_until` methods cannot be used
    /// concurrently from multiple threads.
    pub unsafe fn wait_until<P, T>(&self, predicate: P) -> WaitUntil<'_, P, T>
    where
        P: FnMut() -> Option<T>,
    {
        WaitUntil::new(self, predicate)
    }

    /// Sets the waker at index `idx`.
    ///
    /// # Safety
    ///
    /// The caller must have exclusive access to the waker at index `idx`.
    unsafe fn set_waker(&self, idx: usize, new: Waker) {
        self.waker[idx].with_mut(|waker| (*waker) = Some(new));
    }

    /// Notify the waker at index `idx`.
    ///
    /// # Safety
    ///
    /// The waker at index `idx` cannot be modified concurrently.
    unsafe fn wake_by_ref(&self, idx: usize) {
        self.waker[idx].with(|waker| {
            if let Some(waker) = &*waker {
                waker.wake_by_ref();
            }
        });
    }

    /// Check whether the waker at index `idx` will wake the same task as the
    /// provided waker.
    ///
    /// # Safety
    ///
    /// The waker at index `idx` cannot be modified concurrently.
    unsafe fn will_wake(&self, idx: usize, other: &Waker) -> bool {
        self.waker[idx].with(|waker| match &*waker {
            Some(waker) => waker.will_wake(other),
            None => false,
        })
    }
}

impl Default for DiatomicWaker {
    fn default() -> Self {
        Self::new()
    }
}

unsafe impl Send for DiatomicWaker {}
unsafe impl Sync for DiatomicWaker {}

/// Attempts to acquire the notifier lock and returns the current state upon
/// success.
///
/// Acquisition of the lock will fail in the following cases:
///
/// * the `REGISTERED` flag is cleared, meaning that there is no need to wake
///   and therefore no need to lock,
/// * the lock is already taken, in which case the `NOTIFICATION` flag will be
///   set if the `REGISTERED` flag is set.
///
/// If acquisition of the lock succeeds, the `REGISTERED` flag is cleared. If
/// additionally the `UPDATE` flag was set, it is cleared and `INDEX` is
/// flipped.
///
///  Transition table:
///
/// |  N  L  R  U  I  |  N  L  R  U  I  |
/// |-----------------|-----------------|
/// |  0  0  0  u  i  |  0  0  0  u  i  | (failure)
/// |  0  0  1  0  i  |  0  1  0  0  i  | (success)
/// |  0  0  1  1  i  |  0  1  0  0 !i  | (success)
/// |  0  1  0  u  i  |  0  1  0  u  i  | (failure)
/// |  n  1  1  u  i  |  1  1  1  u  i  | (failure)
///
fn try_lock(state: &AtomicUsize) -> Result<usize, ()> {
    let mut old_state = state.load(Ordering::Relaxed);

    loop {
        if old_state & (LOCKED | REGISTERED) == REGISTERED {
            // Success path.

            // If `UPDATE` is set, clear `UPDATE` and flip `INDEX` with the xor
            // mask.
            let update_bit = old_state & UPDATE;
            let xor_mask = update_bit | (update_bit >> 1);

            // Set `LOCKED` and clear `REGISTERED` with the xor mask.
            let xor_mask = xor_mask | LOCKED | REGISTERED;

            let new_state = old_state ^ xor_mask;

            // Ordering: Acquire is necessary to synchronize with the Release
            // ordering in `register` so that the new waker, if any, is visible.
            // Release ordering synchronizes with the Acquire and AcqRel RMWs in
            // `register` and ensures that either the predicate set before the
            // call to `notify` will be visible after the call to `register`, or
            // the registered waker will be visible during the call to `notify`
            // (or both).
            match state.compare_exchange_weak(
                old_state,
                new_state,
                Ordering::AcqRel,
                Ordering::Relaxed,
            ) {
                Ok(_) => return Ok(new_state),
                Err(s) => old_state = s,
            }
        } else {
            // Failure path.

            // Set the `NOTIFICATION` bit if `REGISTERED` was set.
            let registered_bit = old_state & REGISTERED;
            let new_state = old_state | (registered_bit << 2);

            // Ordering: Release ordering synchronizes with the Acquire and
            // AcqRel RMWs in `register` and ensures that either the predicate
            // set before the call to `notify` will be visible after the call to
            // `register`, or the registered waker will be visible during the
            // call to `notify` (or both).
            match state.compare_exchange_weak(
                old_state,
                new_state,
                Ordering::Release,
                Ordering::Relaxed,
            ) {
                Ok(_) => return Err(()),
                Err(s) => old_state = s,
            }
        };
    }
}

/// Attempts to release the notifier lock and returns the current state upon
/// failure.
///
/// Release of the lock will fail if the `NOTIFICATION` flag is set because it
/// means that, after the lock was taken, the registering thread has requested
/// to be notified again and another notifier has subsequently requested that
/// such notification be sent on its behalf; if additionally the `UPDATE` flag
/// was set (i.e. a new waker is available), it is cleared and `INDEX` is
/// flipped.
///
/// Transition table:
///
/// |  N  L  R  U  I  |  N  L  R  U  I  |
/// |-----------------|-----------------|
/// |  0  1  r  u  i  |  0  0  r  u  i  | (success)
/// |  1  1  1  0  i  |  0  1  0  0  i  | (failure)
/// |  1  1  1  1  i  |  0  1  0  0 !i  | (failure)
///
fn try_unlock(state: &AtomicUsize, mut old_state: usize) -> Result<(), usize> {
    loop {
        if old_state & NOTIFICATION == 0 {
            // Success path.

            let new_state = old_state & !LOCKED;

            // Ordering: Release is necessary to synchronize with the Acquire
            // ordering in `register` and ensure that the waker call has
            // completed before a new waker is stored.
            match state.compare_exchange_weak(
                old_state,
                new_state,
                Ordering::Release,
                Ordering::Relaxed,
            ) {
                Ok(_) => return Ok(()),
                Err(s) => old_state = s,
            }
        } else {
            // Failure path.

            // If `UPDATE` is set, clear `UPDATE` and flip `INDEX` with the xor mask.
            let update_bit = old_state & UPDATE;
            let xor_mask = update_bit | (update_bit >> 1);

            // Clear `NOTIFICATION` and `REGISTERED` with the xor mask.
            let xor_mask = xor_mask | NOTIFICATION | REGISTERED;

            let new_state = old_state ^ xor_mask;

            // Ordering: Release is necessary to synchronize with the Acquire
            // ordering in `register` and ensure that the call to
            // `Waker::wake_by_ref` has completed before a new waker is stored.
            // Acquire ordering is in turn necessary to ensure that any newly
            // registered waker is visible.
            match state.compare_exchange_weak(
                old_state,
                new_state,
                Ordering::AcqRel,
                Ordering::Relaxed,
            ) {
                Ok(_) => return Err(new_state),
                Err(s) => old_state = s,
            }
        };
    }
}

/// A future that can be `await`ed until a predicate is satisfied.
#[derive(Debug)]
pub struct WaitUntil<'a, P, T>
where
    P: FnMut() -> Option<T>,
{
    predicate: P,
    wake: &'a DiatomicWaker,
}

impl<'a, P, T> WaitUntil<'a, P, T>
where
    P: FnMut() -> Option<T>,
{
    /// Creates a future associated to the specified wake that can be `await`ed
    /// until the specified predicate is satisfied.
    fn new(wake: &'a DiatomicWaker, predicate: P) -> Self {
        Self { predicate, wake }
    }
}

impl<P: FnMut() -> Option<T>, T> Unpin for WaitUntil<'_, P, T> {}

impl<'a, P, T> Future for WaitUntil<'a, P, T>
where
    P: FnMut() -> Option<T>,
{
    type Output = T;

    fn poll(mut self: Pin<&mut Self>, cx: &mut Context<'_>) -> Poll<T> {
        // Safety: the safety of this method is contingent on the safety of the
        // `register` and `unregister` methods. Since a `WaitUntil` future can
        // only be created from the unsafe `wait_until` method, however, the
        // user must uphold the contract that `register`, `unregister` and
        // `wait_until` cannot be used concurrently from multiple threads.
        unsafe {
            if let Some(value) = (self.predicate)() {
                return Poll::Ready(value);
            }
            self.wake.register(cx.waker());

            if let Some(value) = (self.predicate)() {
                self.wake.unregister();
                return Poll::Ready(value);
            }
        }

        Poll::Pending
    }
}
