pub(crate) mod sync {
    pub(crate) mod atomic {
        pub(crate) use crate::sched::AtomicUsize;
    }
}
pub(crate) mod cell {
    pub(crate) use crate::loom_exports::cell::UnsafeCell;
}
