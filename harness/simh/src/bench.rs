//! Bench interpreter: runs a case of the bench DSL (grammar in tools/simcase.py) against the
//! real `nexosim` crate through its public API and prints the observables in the same
//! textual form as the extracted Coq model (`ocaml/driver.ml`).

use std::sync::{Arc, Mutex};
use std::time::Duration;

use nexosim::model::{BuildContext, Context, InitializedModel, Model, ProtoModel};
use nexosim::ports::{EventBuffer, EventSlot, EventSource, Output, Requestor, UniRequestor};
use nexosim::simulation::{
    ActionKey, Address, ExecutionError, Mailbox, Scheduler, SchedulingError, SimInit, Simulation,
};
use nexosim::time::{Clock, MonotonicTime, SyncStatus};

// ------------------------------------------------------------------ DSL

#[derive(Clone, Copy, Debug)]
pub enum Keep {
    All,
    Even,
    Lt(i64),
}
impl Keep {
    fn ok(&self, v: i64) -> bool {
        match self {
            Keep::All => true,
            Keep::Even => v % 2 == 0,
            Keep::Lt(c) => v < *c,
        }
    }
}
#[derive(Clone, Copy, Debug)]
pub enum Tgt {
    Model(usize, usize),
    Sink(usize),
}
#[derive(Clone, Copy, Debug)]
pub struct Conn {
    keep: Keep,
    add: i64,
    tgt: Tgt,
}
#[derive(Clone, Copy, Debug)]
pub struct QConn {
    keep: Keep,
    add: i64,
    model: usize,
    rep: usize,
    radd: i64,
}
#[derive(Clone, Copy, Debug)]
pub enum Expr {
    In,
    Const(i64),
    InPlus(i64),
}
impl Expr {
    fn eval(&self, v: i64) -> i64 {
        match self {
            Expr::In => v,
            Expr::Const(c) => *c,
            Expr::InPlus(c) => v + c,
        }
    }
}
#[derive(Clone, Copy, Debug)]
pub enum Dl {
    Abs(i64),
    Rel(i64),
}
#[derive(Clone, Debug)]
pub enum Op {
    Send(usize, Expr),
    Query(usize, Expr),
    Sched(Dl, usize, Expr, Option<usize>, Option<i64>),
    Cancel(usize),
    CancelAuto(usize),
    Panic(i64),
    /// build, run and drop a nested simulation (threads, models) inside the handler
    Nested(usize, usize),
    /// the same, but the nested model panics while handling its event (the error is handled here)
    NestedPanic(usize, usize),
    /// the handler is busy for that many milliseconds (harness only; invisible to the model)
    Sleep(u64),
}
#[derive(Clone, Debug)]
pub struct MSpec {
    cap: usize,
    place: u8, // 0 added, 1 orphan, 2 dropped
    parent: Option<usize>,
    named: bool,
    init: Vec<Op>,
    handlers: Vec<Vec<Op>>,
    repliers: Vec<(Vec<Op>, i64)>,
    outs: Vec<Vec<Conn>>,
    reqs: Vec<Vec<QConn>>,
}
#[derive(Clone, Debug)]
pub enum Cmd {
    SchedEvent(Dl, usize, usize, i64, Option<usize>, Option<i64>),
    SchedSrc(Dl, usize, i64, Option<usize>, Option<i64>),
    Cancel(usize),
    /// into_auto() + drop of the key in the slot
    CancelAuto(usize),
    /// slot b := clone of the key in slot a
    CloneKey(usize, usize),
    Step,
    StepUntil(Dl),
    ProcEvent(usize, usize, i64),
    ProcQuery(usize, usize, i64),
    ProcSrc(usize, i64),
    ReadSink(usize),
    SinkOpen(usize, bool),
    /// a scheduling request issued from another thread, gated inside Deadline::into_time, racing with step()
    Race(u8, i64, usize, usize, i64),
    /// Simulation::set_timeout (milliseconds)
    SetTimeout(u64),
}
pub struct Case {
    threads: usize,
    delays: Option<(u64, u32, u32)>,
    t0: i64,
    tol: Option<i64>,
    models: Vec<MSpec>,
    sinks: Vec<(u8, usize)>,
    sources: Vec<Vec<Conn>>,
    clock: Vec<Option<i64>>,
    cmds: Vec<Cmd>,
}

struct P<'a> {
    t: Vec<&'a str>,
    i: usize,
}
impl<'a> P<'a> {
    fn next(&mut self) -> &'a str {
        let x = self.t[self.i];
        self.i += 1;
        x
    }
    fn int(&mut self) -> i64 {
        self.next().parse().unwrap()
    }
    fn us(&mut self) -> usize {
        self.int() as usize
    }
    fn opt_us(&mut self) -> Option<usize> {
        let i = self.int();
        if i < 0 {
            None
        } else {
            Some(i as usize)
        }
    }
    fn opt_i(&mut self) -> Option<i64> {
        let i = self.int();
        if i < 0 {
            None
        } else {
            Some(i)
        }
    }
    fn expect(&mut self, s: &str) {
        let t = self.next();
        assert_eq!(t, s, "parse: expected {}", s);
    }
    fn list<T>(&mut self, f: impl Fn(&mut Self) -> T) -> Vec<T> {
        let n = self.int();
        (0..n).map(|_| f(self)).collect()
    }
    fn keep(&mut self) -> Keep {
        match self.next() {
            "all" => Keep::All,
            "even" => Keep::Even,
            "lt" => Keep::Lt(self.int()),
            t => panic!("keep {}", t),
        }
    }
    fn tgt(&mut self) -> Tgt {
        match self.next() {
            "m" => {
                let m = self.us();
                let i = self.us();
                Tgt::Model(m, i)
            }
            "s" => Tgt::Sink(self.us()),
            t => panic!("tgt {}", t),
        }
    }
    fn conn(&mut self) -> Conn {
        let keep = self.keep();
        let add = self.int();
        let tgt = self.tgt();
        Conn { keep, add, tgt }
    }
    fn qconn(&mut self) -> QConn {
        let keep = self.keep();
        let add = self.int();
        let model = self.us();
        let rep = self.us();
        let radd = self.int();
        QConn {
            keep,
            add,
            model,
            rep,
            radd,
        }
    }
    fn expr(&mut self) -> Expr {
        match self.next() {
            "in" => Expr::In,
            "c" => Expr::Const(self.int()),
            "ip" => Expr::InPlus(self.int()),
            t => panic!("expr {}", t),
        }
    }
    fn dl(&mut self) -> Dl {
        match self.next() {
            "a" => Dl::Abs(self.int()),
            "r" => Dl::Rel(self.int()),
            t => panic!("dl {}", t),
        }
    }
    fn op(&mut self) -> Op {
        match self.next() {
            "snd" => {
                let p = self.us();
                Op::Send(p, self.expr())
            }
            "qry" => {
                let p = self.us();
                Op::Query(p, self.expr())
            }
            "sch" => {
                let d = self.dl();
                let i = self.us();
                let e = self.expr();
                let sl = self.opt_us();
                let pe = self.opt_i();
                Op::Sched(d, i, e, sl, pe)
            }
            "can" => Op::Cancel(self.us()),
            "cau" => Op::CancelAuto(self.us()),
            "pan" => Op::Panic(self.int()),
            "nst" => {
                let t = self.us();
                Op::Nested(t, self.us())
            }
            "nsp" => {
                let t = self.us();
                Op::NestedPanic(t, self.us())
            }
            "slp" => Op::Sleep(self.us() as u64),
            t => panic!("op {}", t),
        }
    }
    fn script(&mut self) -> Vec<Op> {
        self.list(|p| p.op())
    }
    fn model(&mut self) -> MSpec {
        let cap = self.us();
        let place = self.int() as u8;
        let parent = self.opt_us();
        let named = self.int() == 1;
        let init = self.script();
        self.expect("H");
        let handlers = self.list(|p| p.script());
        self.expect("R");
        let repliers = self.list(|p| {
            let s = p.script();
            let c = p.int();
            (s, c)
        });
        self.expect("O");
        let outs = self.list(|p| p.list(|p| p.conn()));
        self.expect("Q");
        let reqs = self.list(|p| p.list(|p| p.qconn()));
        MSpec {
            cap,
            place,
            parent,
            named,
            init,
            handlers,
            repliers,
            outs,
            reqs,
        }
    }
    fn cmd(&mut self) -> Cmd {
        match self.next() {
            "se" => {
                let d = self.dl();
                let m = self.us();
                let i = self.us();
                let v = self.int();
                let sl = self.opt_us();
                let pe = self.opt_i();
                Cmd::SchedEvent(d, m, i, v, sl, pe)
            }
            "ss" => {
                let d = self.dl();
                let s = self.us();
                let v = self.int();
                let sl = self.opt_us();
                let pe = self.opt_i();
                Cmd::SchedSrc(d, s, v, sl, pe)
            }
            "cn" => Cmd::Cancel(self.us()),
            "ca" => Cmd::CancelAuto(self.us()),
            "ck" => {
                let a = self.us();
                Cmd::CloneKey(a, self.us())
            }
            "st" => Cmd::Step,
            "su" => Cmd::StepUntil(self.dl()),
            "pe" => {
                let m = self.us();
                let i = self.us();
                let v = self.int();
                Cmd::ProcEvent(m, i, v)
            }
            "pq" => {
                let m = self.us();
                let r = self.us();
                let v = self.int();
                Cmd::ProcQuery(m, r, v)
            }
            "ps" => {
                let s = self.us();
                let v = self.int();
                Cmd::ProcSrc(s, v)
            }
            "rs" => Cmd::ReadSink(self.us()),
            "so" => {
                let k = self.us();
                let o = self.int() == 1;
                Cmd::SinkOpen(k, o)
            }
            "to" => Cmd::SetTimeout(self.us() as u64),
            "rc" => {
                let kind = self.int() as u8;
                let t = self.int();
                let m = self.us();
                let i = self.us();
                let v = self.int();
                Cmd::Race(kind, t, m, i, v)
            }
            t => panic!("cmd {}", t),
        }
    }
}

pub fn parse(words: &[&str]) -> Case {
    let mut p = P {
        t: words.to_vec(),
        i: 0,
    };
    // "<threads>" or "<threads>d<seed>[p<permille>][u<max_us>]": seeded delays at the executor's
    // protocol points (nexosim::verif, cfg nexosim_verif)
    let tok = p.next().to_string();
    let (threads, delays) = match tok.split_once('d') {
        None => (tok.parse::<usize>().unwrap(), None),
        Some((t, rest)) => {
            let (rest, us) = match rest.split_once('u') {
                Some((a, b)) => (a, b.parse::<u32>().unwrap()),
                None => (rest, 100),
            };
            let (seed, pm) = match rest.split_once('p') {
                Some((a, b)) => (a.parse::<u64>().unwrap(), b.parse::<u32>().unwrap()),
                None => (rest.parse::<u64>().unwrap(), 250),
            };
            (t.parse::<usize>().unwrap(), Some((seed, pm, us)))
        }
    };
    let _fuel = p.int();
    let t0 = p.int();
    let tol = p.opt_i();
    for _ in 0..4 {
        p.int();
    }
    p.expect("M");
    let models = p.list(|p| p.model());
    p.expect("S");
    let sinks = p.list(|p| {
        let k = p.int() as u8;
        let c = p.us();
        (k, c)
    });
    p.expect("E");
    let sources = p.list(|p| p.list(|p| p.conn()));
    p.expect("K");
    // -1 = Synchronized, -2 = Synchronized + probe request (see ScriptClock), n >= 0 = OutOfSync(n)
    let clock = p.list(|p| {
        let i = p.int();
        if i == -1 {
            None
        } else {
            Some(i)
        }
    });
    p.expect("I");
    let _ = p.list(|p| p.int());
    p.expect("C");
    let cmds = p.list(|p| {
        let c = p.cmd();
        let _ = p.list(|p| p.int());
        c
    });
    Case {
        threads,
        delays,
        t0,
        tol,
        models,
        sinks,
        sources,
        clock,
        cmds,
    }
}

// ------------------------------------------------------------------ runtime

type Log = Arc<Mutex<Vec<String>>>;

fn mt(t: i64) -> MonotonicTime {
    if t >= 0 {
        MonotonicTime::EPOCH + Duration::from_nanos(t as u64)
    } else {
        // times before the epoch are legal
        MonotonicTime::EPOCH - Duration::from_nanos(t.unsigned_abs())
    }
}
fn ns(t: MonotonicTime) -> i128 {
    if t >= MonotonicTime::EPOCH {
        t.duration_since(MonotonicTime::EPOCH).as_nanos() as i128
    } else {
        -(MonotonicTime::EPOCH.duration_since(t).as_nanos() as i128)
    }
}

pub struct PanicCode(pub i64);

/// A deadline whose `into_time` tells the main thread that it was entered and then waits (bounded)
/// for it to finish a `step()`.  The schedule_* functions must evaluate the deadline and read the
/// current time while holding the queue lock; if they do, `step()` cannot make progress while the
/// request is parked here, and the request is serialised before the step.
pub struct Gated {
    t: MonotonicTime,
    entered: std::sync::mpsc::Sender<()>,
    resume: std::sync::mpsc::Receiver<()>,
}
impl nexosim::time::Deadline for Gated {
    fn into_time(self, _now: MonotonicTime) -> MonotonicTime {
        let _ = self.entered.send(());
        let _ = self.resume.recv_timeout(Duration::from_millis(250));
        self.t
    }
}

pub static SM_DROPS: std::sync::atomic::AtomicUsize = std::sync::atomic::AtomicUsize::new(0);
// nested simulations (Op::Nested): models made, models dropped, simulations run, handler runs
pub static NM_STATS: [std::sync::atomic::AtomicUsize; 4] = [
    std::sync::atomic::AtomicUsize::new(0),
    std::sync::atomic::AtomicUsize::new(0),
    std::sync::atomic::AtomicUsize::new(0),
    std::sync::atomic::AtomicUsize::new(0),
];
pub struct NM;
impl NM {
    async fn ping(&mut self) {
        NM_STATS[3].fetch_add(1, std::sync::atomic::Ordering::SeqCst);
    }
    async fn boom(&mut self) {
        NM_STATS[3].fetch_add(1, std::sync::atomic::Ordering::SeqCst);
        std::panic::panic_any(PanicCode(-1));
    }
}
impl Model for NM {}
impl Drop for NM {
    fn drop(&mut self) {
        NM_STATS[1].fetch_add(1, std::sync::atomic::Ordering::SeqCst);
    }
}
fn nested(threads: usize, k: usize, panics: bool) {
    use std::sync::atomic::Ordering::SeqCst;
    let mut init = SimInit::with_num_threads(threads);
    let mut first = None;
    for i in 0..k {
        let mb = Mailbox::new();
        if first.is_none() {
            first = Some(mb.address());
        }
        NM_STATS[0].fetch_add(1, SeqCst);
        init = init.add_model(NM, mb, format!("nested{}", i));
    }
    NM_STATS[2].fetch_add(1, SeqCst);
    if let Ok((mut simu, _sched)) = init.init(MonotonicTime::EPOCH) {
        if let Some(a) = first {
            if panics {
                // the nested model panics: the nested simulation reports it, the enclosing handler goes on
                let _ = simu.process_event(NM::boom, (), &a);
            } else {
                let _ = simu.process_event(NM::ping, (), &a);
            }
        }
    }
}
impl Drop for SM {
    fn drop(&mut self) {
        SM_DROPS.fetch_add(1, std::sync::atomic::Ordering::SeqCst);
    }
}

pub struct SM {
    id: usize,
    spec: Arc<MSpec>,
    outs: Vec<Output<i64>>,
    reqs: Vec<ReqPort>,
    keys: Vec<Option<ActionKey>>,
    log: Log,
}

fn sched_code(r: &Result<(), SchedulingError>) -> u8 {
    match r {
        Ok(()) => 0,
        Err(SchedulingError::InvalidScheduledTime) => 1,
        Err(SchedulingError::NullRepetitionPeriod) => 2,
    }
}

macro_rules! by_input {
    ($i:expr, $s:expr, $f:ident) => {
        match ($i, $s) {
            (0, false) => $f!(SM::in0),
            (1, false) => $f!(SM::in1),
            (2, false) => $f!(SM::in2),
            (_, false) => $f!(SM::in3),
            (0, true) => $f!(SM::in0s),
            (1, true) => $f!(SM::in1s),
            (2, true) => $f!(SM::in2s),
            (_, true) => $f!(SM::in3s),
        }
    };
}

/// An input whose script never awaits (no send, no query) is registered as a plain `fn` input method instead of an
/// `async fn` one on models / inputs chosen by a parity: both kinds of input methods are legal and must behave alike.
static SYNC_SALT: std::sync::atomic::AtomicUsize = std::sync::atomic::AtomicUsize::new(0);
fn use_sync(spec: &MSpec, id: usize, input: usize) -> bool {
    (id + input + SYNC_SALT.load(std::sync::atomic::Ordering::Relaxed)) % 2 == 1
        && spec
            .handlers
            .get(input)
            .map(|s| s.iter().all(|o| !matches!(o, Op::Send(..) | Op::Query(..))))
            .unwrap_or(true)
}

impl SM {
    fn sched_from_model(
        &mut self,
        cx: &mut Context<Self>,
        d: Dl,
        input: usize,
        v: i64,
        slot: Option<usize>,
        period: Option<i64>,
    ) -> u8 {
        macro_rules! go {
            ($f:path) => {{
                macro_rules! with_dl {
                    ($dl:expr) => {
                        match (slot, period) {
                            (None, None) => sched_code(&cx.schedule_event($dl, $f, v)),
                            (None, Some(p)) => sched_code(&cx.schedule_periodic_event(
                                $dl,
                                Duration::from_nanos(p as u64),
                                $f,
                                v,
                            )),
                            (Some(sl), None) => match cx.schedule_keyed_event($dl, $f, v) {
                                Ok(k) => {
                                    self.keys[sl] = Some(k);
                                    0
                                }
                                Err(e) => sched_code(&Err(e)),
                            },
                            (Some(sl), Some(p)) => match cx.schedule_keyed_periodic_event(
                                $dl,
                                Duration::from_nanos(p as u64),
                                $f,
                                v,
                            ) {
                                Ok(k) => {
                                    self.keys[sl] = Some(k);
                                    0
                                }
                                Err(e) => sched_code(&Err(e)),
                            },
                        }
                    };
                }
                match d {
                    Dl::Abs(t) => with_dl!(mt(t)),
                    Dl::Rel(x) => with_dl!(Duration::from_nanos(x as u64)),
                }
            }};
        }
        let sy = use_sync(&self.spec, self.id, input);
        by_input!(input, sy, go)
    }

    async fn exec(&mut self, script: &[Op], v: i64, cx: &mut Context<Self>) {
        for op in script {
            match op {
                Op::Send(port, e) => {
                    let x = e.eval(v);
                    if *port < self.outs.len() {
                        self.outs[*port].send(x).await;
                    }
                }
                Op::Query(port, e) => {
                    let x = e.eval(v);
                    if *port < self.reqs.len() {
                        let rs: Vec<i64> = match &mut self.reqs[*port] {
                            ReqPort::Multi(r) => r.send(x).await.collect(),
                            ReqPort::Uni(u) => u.send(x).await.into_iter().collect(),
                        };
                        if !rs.is_empty() {
                            let s: Vec<String> = rs.iter().map(|r| r.to_string()).collect();
                            self.log
                                .lock()
                                .unwrap()
                                .push(format!("Y:{}:{}", self.id, s.join(",")));
                        }
                    }
                }
                Op::Sched(d, input, e, slot, period) => {
                    let code = self.sched_from_model(cx, *d, *input, e.eval(v), *slot, *period);
                    self.log
                        .lock()
                        .unwrap()
                        .push(format!("X:{}:{}", self.id, code));
                }
                Op::Cancel(sl) => {
                    if let Some(k) = self.keys[*sl].take() {
                        k.cancel();
                    }
                }
                Op::CancelAuto(sl) => {
                    if let Some(k) = self.keys[*sl].take() {
                        drop(k.into_auto());
                    }
                }
                Op::Panic(c) => {
                    std::panic::panic_any(PanicCode(*c));
                }
                Op::Nested(t, k) => nested(*t, *k, false),
                Op::NestedPanic(t, k) => nested(*t, *k, true),
                Op::Sleep(ms) => std::thread::sleep(Duration::from_millis(*ms)),
            }
        }
    }
    async fn handle(&mut self, input: usize, v: i64, cx: &mut Context<Self>) {
        self.log.lock().unwrap().push(format!(
            "H:{}:{}:{}:{}",
            self.id,
            input,
            v,
            ns(cx.time())
        ));
        let spec = self.spec.clone();
        let empty = Vec::new();
        let script = spec.handlers.get(input).unwrap_or(&empty);
        self.exec(script, v, cx).await;
    }
    async fn reply(&mut self, rep: usize, v: i64, cx: &mut Context<Self>) -> i64 {
        self.log.lock().unwrap().push(format!(
            "P:{}:{}:{}:{}",
            self.id,
            rep,
            v,
            ns(cx.time())
        ));
        let spec = self.spec.clone();
        let (script, c) = match spec.repliers.get(rep) {
            Some((s, c)) => (s.clone(), *c),
            None => (Vec::new(), 0),
        };
        self.exec(&script, v, cx).await;
        v + c
    }
    pub async fn in0(&mut self, v: i64, cx: &mut Context<Self>) {
        self.handle(0, v, cx).await
    }
    pub async fn in1(&mut self, v: i64, cx: &mut Context<Self>) {
        self.handle(1, v, cx).await
    }
    pub async fn in2(&mut self, v: i64, cx: &mut Context<Self>) {
        self.handle(2, v, cx).await
    }
    pub async fn in3(&mut self, v: i64, cx: &mut Context<Self>) {
        self.handle(3, v, cx).await
    }
    pub async fn rep0(&mut self, v: i64, cx: &mut Context<Self>) -> i64 {
        self.reply(0, v, cx).await
    }
    pub async fn rep1(&mut self, v: i64, cx: &mut Context<Self>) -> i64 {
        self.reply(1, v, cx).await
    }
    /// the non-async twins of in0..in3 (scripts without send / query only)
    fn handle_sync(&mut self, input: usize, v: i64, cx: &mut Context<Self>) {
        self.log.lock().unwrap().push(format!(
            "H:{}:{}:{}:{}",
            self.id,
            input,
            v,
            ns(cx.time())
        ));
        let spec = self.spec.clone();
        let empty = Vec::new();
        let script = spec.handlers.get(input).unwrap_or(&empty);
        for op in script {
            match op {
                Op::Send(..) | Op::Query(..) => unreachable!("an awaiting op in a non-async input"),
                Op::Sched(d, input, e, slot, period) => {
                    let code = self.sched_from_model(cx, *d, *input, e.eval(v), *slot, *period);
                    self.log
                        .lock()
                        .unwrap()
                        .push(format!("X:{}:{}", self.id, code));
                }
                Op::Cancel(sl) => {
                    if let Some(k) = self.keys[*sl].take() {
                        k.cancel();
                    }
                }
                Op::CancelAuto(sl) => {
                    if let Some(k) = self.keys[*sl].take() {
                        drop(k.into_auto());
                    }
                }
                Op::Panic(c) => {
                    std::panic::panic_any(PanicCode(*c));
                }
                Op::Nested(t, k) => nested(*t, *k, false),
                Op::NestedPanic(t, k) => nested(*t, *k, true),
                Op::Sleep(ms) => std::thread::sleep(Duration::from_millis(*ms)),
            }
        }
    }
    pub fn in0s(&mut self, v: i64, cx: &mut Context<Self>) {
        self.handle_sync(0, v, cx)
    }
    pub fn in1s(&mut self, v: i64, cx: &mut Context<Self>) {
        self.handle_sync(1, v, cx)
    }
    pub fn in2s(&mut self, v: i64, cx: &mut Context<Self>) {
        self.handle_sync(2, v, cx)
    }
    pub fn in3s(&mut self, v: i64, cx: &mut Context<Self>) {
        self.handle_sync(3, v, cx)
    }
}

impl Model for SM {
    async fn init(mut self, cx: &mut Context<Self>) -> InitializedModel<Self> {
        self.log
            .lock()
            .unwrap()
            .push(format!("I:{}:{}", self.id, ns(cx.time())));
        self.log
            .lock()
            .unwrap()
            .push(format!("N:{}:{}", self.id, canon_name(cx.name())));
        let spec = self.spec.clone();
        self.exec(&spec.init, 0, cx).await;
        self.into()
    }
}

pub struct Proto {
    model: SM,
    children: Vec<(Proto, Mailbox<SM>, String)>,
}
impl ProtoModel for Proto {
    type Model = SM;
    fn build(self, cx: &mut BuildContext<Self>) -> SM {
        for (child, mbox, name) in self.children {
            cx.add_submodel(child, mbox, name);
        }
        self.model
    }
}

struct ScriptClock {
    answers: Vec<Option<i64>>,
    pos: usize,
    log: Log,
    /// filled after init: lets the clock act as a concurrent user of the scheduler handle
    probe: Arc<Mutex<Option<(Scheduler, Address<SM>)>>>,
}
impl Clock for ScriptClock {
    fn synchronize(&mut self, deadline: MonotonicTime) -> SyncStatus {
        self.log
            .lock()
            .unwrap()
            .push(format!("K:{}", ns(deadline)));
        let a = self.answers.get(self.pos).copied().flatten();
        self.pos += 1;
        if a == Some(-2) {
            // probe (answer: Synchronized): while the step to `deadline` waits for the clock, a request
            // for an event AT `deadline` must be refused (its time is not in the future of the step in
            // progress) and the published time must already be `deadline`
            if let Some((sched, addr)) = self.probe.lock().unwrap().as_ref() {
                let r = sched.schedule_event(deadline, SM::in0, -777, addr);
                let code = sched_code(&r);
                let teq = if sched.time() == deadline { 1 } else { 0 };
                self.log.lock().unwrap().push(format!("Z:{}:{}", code, teq));
            }
            return SyncStatus::Synchronized;
        }
        match a {
            None => SyncStatus::Synchronized,
            Some(lag) => SyncStatus::OutOfSync(Duration::from_nanos(lag as u64)),
        }
    }
}

enum SinkK {
    Buf(EventBuffer<i64>),
    Slot(EventSlot<i64>),
}

fn canon_name(s: &str) -> String {
    s.split('.')
        .map(|c| {
            if c == "<unknown>" {
                "?".to_string()
            } else {
                c.trim_start_matches('m').to_string()
            }
        })
        .collect::<Vec<_>>()
        .join(".")
}

fn err_str(e: ExecutionError) -> String {
    match e {
        ExecutionError::Terminated => "term".into(),
        ExecutionError::Deadlock(l) => format!(
            "dead:{}",
            l.iter()
                .map(|d| format!("{}={}", canon_name(&d.model), d.mailbox_size))
                .collect::<Vec<_>>()
                .join(",")
        ),
        ExecutionError::MessageLoss(n) => format!("loss:{}", n),
        ExecutionError::NoRecipient { model } => match model {
            None => "norecip:-".into(),
            Some(m) => format!("norecip:{}", canon_name(&m)),
        },
        ExecutionError::Panic { model, payload } => {
            let code = match payload.downcast_ref::<PanicCode>() {
                Some(PanicCode(c)) => c.to_string(),
                None => "other".into(),
            };
            format!("panic:{}:{}", canon_name(&model), code)
        }
        ExecutionError::Timeout => "timeout".into(),
        ExecutionError::OutOfSync(lag) => format!("oos:{}", lag.as_nanos()),
        ExecutionError::BadQuery => "badq".into(),
        ExecutionError::InvalidDeadline(t) => format!("invdl:{}", ns(t)),
    }
}

fn connect_out(out: &mut Output<i64>, c: &Conn, addrs: &[Address<SM>], sinks: &[SinkK], specs: &[MSpec]) {
    let keep = c.keep;
    let add = c.add;
    match c.tgt {
        Tgt::Model(m, i) => {
            macro_rules! go {
                ($f:path) => {
                    match (keep, add) {
                        (Keep::All, 0) => out.connect($f, &addrs[m]),
                        (Keep::All, _) => out.map_connect(move |x: &i64| *x + add, $f, &addrs[m]),
                        _ => out.filter_map_connect(
                            move |x: &i64| if keep.ok(*x) { Some(*x + add) } else { None },
                            $f,
                            &addrs[m],
                        ),
                    }
                };
            }
            by_input!(i, use_sync(&specs[m], m, i), go)
        }
        Tgt::Sink(s) => match &sinks[s] {
            SinkK::Buf(b) => match (keep, add) {
                (Keep::All, 0) => out.connect_sink(b),
                (Keep::All, _) => out.map_connect_sink(move |x: &i64| *x + add, b),
                _ => out.filter_map_connect_sink(
                    move |x: &i64| if keep.ok(*x) { Some(*x + add) } else { None },
                    b,
                ),
            },
            SinkK::Slot(b) => match (keep, add) {
                (Keep::All, 0) => out.connect_sink(b),
                (Keep::All, _) => out.map_connect_sink(move |x: &i64| *x + add, b),
                _ => out.filter_map_connect_sink(
                    move |x: &i64| if keep.ok(*x) { Some(*x + add) } else { None },
                    b,
                ),
            },
        },
    }
}

fn connect_src(src: &mut EventSource<i64>, c: &Conn, addrs: &[Address<SM>], specs: &[MSpec]) {
    let keep = c.keep;
    let add = c.add;
    if let Tgt::Model(m, i) = c.tgt {
        macro_rules! go {
            ($f:path) => {
                match (keep, add) {
                    (Keep::All, 0) => src.connect($f, &addrs[m]),
                    (Keep::All, _) => src.map_connect(move |x: &i64| *x + add, $f, &addrs[m]),
                    _ => src.filter_map_connect(
                        move |x: &i64| if keep.ok(*x) { Some(*x + add) } else { None },
                        $f,
                        &addrs[m],
                    ),
                }
            };
        }
        by_input!(i, use_sync(&specs[m], m, i), go)
    }
}

/// A requestor port with exactly one connection is built as a `UniRequestor` (the single-connection port type) on
/// ports chosen by a parity of the case: both port types must behave alike.
pub enum ReqPort {
    Multi(Requestor<i64, i64>),
    Uni(UniRequestor<i64, i64>),
}

fn uni_req(q: &QConn, addrs: &[Address<SM>]) -> UniRequestor<i64, i64> {
    let keep = q.keep;
    let add = q.add;
    let radd = q.radd;
    macro_rules! go {
        ($f:path) => {
            match (keep, add, radd) {
                (Keep::All, 0, 0) => UniRequestor::new($f, &addrs[q.model]),
                (Keep::All, _, _) => {
                    UniRequestor::with_map(move |x: &i64| *x + add, move |r: i64| r + radd, $f, &addrs[q.model])
                }
                _ => UniRequestor::with_filter_map(
                    move |x: &i64| if keep.ok(*x) { Some(*x + add) } else { None },
                    move |r: i64| r + radd,
                    $f,
                    &addrs[q.model],
                ),
            }
        };
    }
    match q.rep {
        0 => go!(SM::rep0),
        _ => go!(SM::rep1),
    }
}

fn connect_req(req: &mut Requestor<i64, i64>, q: &QConn, addrs: &[Address<SM>]) {
    let keep = q.keep;
    let add = q.add;
    let radd = q.radd;
    macro_rules! go {
        ($f:path) => {
            match (keep, add, radd) {
                (Keep::All, 0, 0) => req.connect($f, &addrs[q.model]),
                (Keep::All, _, _) => req.map_connect(
                    move |x: &i64| *x + add,
                    move |r: i64| r + radd,
                    $f,
                    &addrs[q.model],
                ),
                _ => req.filter_map_connect(
                    move |x: &i64| if keep.ok(*x) { Some(*x + add) } else { None },
                    move |r: i64| r + radd,
                    $f,
                    &addrs[q.model],
                ),
            }
        };
    }
    match q.rep {
        0 => go!(SM::rep0),
        _ => go!(SM::rep1),
    }
}

fn drain(log: &Log) -> String {
    let mut l = log.lock().unwrap();
    let s = l.join(" ");
    l.clear();
    s
}

pub fn run(case: &Case) -> String {
    // the kind (fn / async fn) of the input methods varies with the case
    SYNC_SALT.store(case.cmds.len() + case.models.len(), std::sync::atomic::Ordering::Relaxed);
    match case.delays {
        Some((seed, pm, us)) => nexosim::verif::set_delays(seed, pm, us, !0),
        None => nexosim::verif::set_delays(0, 0, 0, 0),
    }
    let r = run_inner(case);
    nexosim::verif::set_delays(0, 0, 0, 0);
    r
}

fn run_inner(case: &Case) -> String {
    SM_DROPS.store(0, std::sync::atomic::Ordering::SeqCst);
    for c in NM_STATS.iter() {
        c.store(0, std::sync::atomic::Ordering::SeqCst);
    }
    let log: Log = Arc::new(Mutex::new(Vec::new()));
    let n = case.models.len();
    let mut mboxes: Vec<Option<Mailbox<SM>>> = case
        .models
        .iter()
        .map(|m| Some(Mailbox::with_capacity(m.cap)))
        .collect();
    let addrs: Vec<Address<SM>> = mboxes.iter().map(|m| m.as_ref().unwrap().address()).collect();
    let mut sinks: Vec<SinkK> = case
        .sinks
        .iter()
        .map(|(k, c)| {
            if *k == 0 {
                SinkK::Buf(EventBuffer::with_capacity(*c))
            } else {
                SinkK::Slot(EventSlot::new())
            }
        })
        .collect();
    let mut sms: Vec<Option<SM>> = Vec::new();
    for (id, sp) in case.models.iter().enumerate() {
        let mut outs = Vec::new();
        for conns in &sp.outs {
            let mut o = Output::default();
            for c in conns {
                connect_out(&mut o, c, &addrs, &sinks, &case.models);
            }
            outs.push(o);
        }
        let mut reqs = Vec::new();
        for (pi, qs) in sp.reqs.iter().enumerate() {
            if qs.len() == 1 && (id + pi + case.cmds.len()) % 2 == 0 {
                reqs.push(ReqPort::Uni(uni_req(&qs[0], &addrs)));
                continue;
            }
            let mut r = Requestor::default();
            for q in qs {
                connect_req(&mut r, q, &addrs);
            }
            reqs.push(ReqPort::Multi(r));
        }
        sms.push(Some(SM {
            id,
            spec: Arc::new(sp.clone()),
            outs,
            reqs,
            keys: vec![None, None, None, None],
            log: log.clone(),
        }));
    }
    let mut sources: Vec<EventSource<i64>> = Vec::new();
    for conns in &case.sources {
        let mut s = EventSource::new();
        for c in conns {
            connect_src(&mut s, c, &addrs, &case.models);
        }
        sources.push(s);
    }
    // hierarchy: build protos bottom-up (children have larger ids than their parent)
    let mut protos: Vec<Option<Proto>> = (0..n).map(|_| None).collect();
    let mut orphans: Vec<Mailbox<SM>> = Vec::new();
    for id in (0..n).rev() {
        let sp = &case.models[id];
        match sp.place {
            0 => {
                let mut children = Vec::new();
                for cid in 0..n {
                    if case.models[cid].parent == Some(id) && case.models[cid].place == 0 {
                        if let Some(p) = protos[cid].take() {
                            let name = if case.models[cid].named {
                                format!("m{}", cid)
                            } else {
                                String::new()
                            };
                            children.push((p, mboxes[cid].take().unwrap(), name));
                        }
                    }
                }
                protos[id] = Some(Proto {
                    model: sms[id].take().unwrap(),
                    children,
                });
            }
            1 => orphans.push(mboxes[id].take().unwrap()),
            _ => {
                mboxes[id].take();
            }
        }
    }
    let probe: Arc<Mutex<Option<(Scheduler, Address<SM>)>>> = Arc::new(Mutex::new(None));
    // The builder calls may come in any order: the tolerance is set before the clock on benches
    // chosen by a parity of the case (the model has no notion of builder order).
    let tol_first = matches!(case.tol, Some(t) if (t as usize + n + case.clock.len()) % 2 == 1);
    let mut init = SimInit::with_num_threads(case.threads);
    if tol_first {
        if let Some(t) = case.tol {
            init = init.set_clock_tolerance(Duration::from_nanos(t as u64));
        }
    }
    init = init.set_clock(ScriptClock {
        answers: case.clock.clone(),
        pos: 0,
        log: log.clone(),
        probe: probe.clone(),
    });
    if !tol_first {
        if let Some(t) = case.tol {
            init = init.set_clock_tolerance(Duration::from_nanos(t as u64));
        }
    }
    // a timeout given as the first command is set through the builder (SimInit::set_timeout) instead of
    // Simulation::set_timeout on benches chosen by a parity of the case
    let builder_timeout = match case.cmds.first() {
        Some(Cmd::SetTimeout(ms)) if (n + case.cmds.len()) % 2 == 0 => Some(*ms),
        _ => None,
    };
    if let Some(ms) = builder_timeout {
        init = init.set_timeout(Duration::from_millis(ms));
    }
    for id in 0..n {
        if case.models[id].parent.is_none() && case.models[id].place == 0 {
            let name = if case.models[id].named {
                format!("m{}", id)
            } else {
                String::new()
            };
            init = init.add_model(protos[id].take().unwrap(), mboxes[id].take().unwrap(), name);
        }
    }
    let mut out: Vec<String> = Vec::new();
    let (mut simu, sched): (Simulation, Scheduler) = match init.init(mt(case.t0)) {
        Ok(x) => {
            out.push(format!("ok @{} [{}]", ns(x.0.time()), drain(&log)));
            x
        }
        Err(e) => {
            // The simulation object is lost: every later command is unobservable.
            out.push(format!("{} @{} [{}]", err_str(e), case.t0, drain(&log)));
            for _ in &case.cmds {
                out.push("noinit".into());
            }
            return out.join(" | ");
        }
    };
    if n > 0 && case.models[0].parent.is_none() && case.models[0].place == 0 {
        *probe.lock().unwrap() = Some((sched.clone(), addrs[0].clone()));
    }
    let mut dkeys: Vec<Option<ActionKey>> = (0..8).map(|_| None).collect();
    for c in &case.cmds {
        let r: String = match c {
            Cmd::SchedEvent(d, m, i, v, slot, period) => {
                let (m, i, v) = (*m, *i, *v);
                macro_rules! go {
                    ($f:path) => {{
                        macro_rules! with_dl {
                            ($dl:expr) => {
                                match (slot, period) {
                                    (None, None) => sched_code(&sched.schedule_event($dl, $f, v, &addrs[m])),
                                    (None, Some(p)) => sched_code(&sched.schedule_periodic_event(
                                        $dl,
                                        Duration::from_nanos(*p as u64),
                                        $f,
                                        v,
                                        &addrs[m],
                                    )),
                                    (Some(sl), None) => match sched.schedule_keyed_event($dl, $f, v, &addrs[m]) {
                                        Ok(k) => {
                                            dkeys[*sl] = Some(k);
                                            0
                                        }
                                        Err(e) => sched_code(&Err(e)),
                                    },
                                    (Some(sl), Some(p)) => match sched.schedule_keyed_periodic_event(
                                        $dl,
                                        Duration::from_nanos(*p as u64),
                                        $f,
                                        v,
                                        &addrs[m],
                                    ) {
                                        Ok(k) => {
                                            dkeys[*sl] = Some(k);
                                            0
                                        }
                                        Err(e) => sched_code(&Err(e)),
                                    },
                                }
                            };
                        }
                        match d {
                            Dl::Abs(t) => with_dl!(mt(*t)),
                            Dl::Rel(x) => with_dl!(Duration::from_nanos(*x as u64)),
                        }
                    }};
                }
                let code = by_input!(i, use_sync(&case.models[m], m, i), go);
                format!("sched:{}", code)
            }
            Cmd::SchedSrc(d, s, v, slot, period) => {
                let src = &mut sources[*s];
                let (action, key) = match (slot, period) {
                    (None, None) => (src.event(*v), None),
                    (None, Some(p)) => (src.periodic_event(Duration::from_nanos(*p as u64), *v), None),
                    (Some(_), None) => {
                        let (a, k) = src.keyed_event(*v);
                        (a, Some(k))
                    }
                    (Some(_), Some(p)) => {
                        let (a, k) = src.keyed_periodic_event(Duration::from_nanos(*p as u64), *v);
                        (a, Some(k))
                    }
                };
                let r = match d {
                    Dl::Abs(t) => sched.schedule(mt(*t), action),
                    Dl::Rel(x) => sched.schedule(Duration::from_nanos(*x as u64), action),
                };
                let code = sched_code(&r);
                if code == 0 {
                    if let (Some(sl), Some(k)) = (slot, key) {
                        dkeys[*sl] = Some(k);
                    }
                }
                format!("sched:{}", code)
            }
            Cmd::Cancel(sl) => {
                if let Some(k) = dkeys[*sl].take() {
                    k.cancel();
                }
                "ok".into()
            }
            Cmd::CancelAuto(sl) => {
                // cancellation by dropping an auto-cancelling key
                if let Some(k) = dkeys[*sl].take() {
                    drop(k.into_auto());
                }
                "ok".into()
            }
            Cmd::CloneKey(a, b) => {
                dkeys[*b] = dkeys[*a].clone();
                "ok".into()
            }
            Cmd::Step => match simu.step() {
                Ok(()) => "ok".into(),
                Err(e) => err_str(e),
            },
            Cmd::StepUntil(d) => {
                let r = match d {
                    Dl::Abs(t) => simu.step_until(mt(*t)),
                    Dl::Rel(x) => simu.step_until(Duration::from_nanos(*x as u64)),
                };
                match r {
                    Ok(()) => "ok".into(),
                    Err(e) => err_str(e),
                }
            }
            Cmd::ProcEvent(m, i, v) => {
                macro_rules! go {
                    ($f:path) => {
                        simu.process_event($f, *v, &addrs[*m])
                    };
                }
                match by_input!(*i, use_sync(&case.models[*m], *m, *i), go) {
                    Ok(()) => "ok".into(),
                    Err(e) => err_str(e),
                }
            }
            Cmd::ProcQuery(m, rep, v) => {
                let r = match rep {
                    0 => simu.process_query(SM::rep0, *v, &addrs[*m]),
                    _ => simu.process_query(SM::rep1, *v, &addrs[*m]),
                };
                match r {
                    Ok(x) => format!("reply:{}", x),
                    Err(e) => err_str(e),
                }
            }
            Cmd::ProcSrc(s, v) => {
                let a = sources[*s].event(*v);
                match simu.process(a) {
                    Ok(()) => "ok".into(),
                    Err(e) => err_str(e),
                }
            }
            Cmd::ReadSink(k) => {
                let vals: Vec<String> = match &mut sinks[*k] {
                    SinkK::Buf(b) => {
                        let mut v = Vec::new();
                        while let Some(x) = b.next() {
                            v.push(x.to_string());
                        }
                        v
                    }
                    SinkK::Slot(s) => s.next().map(|x| vec![x.to_string()]).unwrap_or_default(),
                };
                format!("sink:{}", vals.join(","))
            }
            Cmd::Race(kind, t, m, i, v) => {
                let (etx, erx) = std::sync::mpsc::channel();
                let (rtx, rrx) = std::sync::mpsc::channel();
                let g = Gated { t: mt(*t), entered: etx, resume: rrx };
                let sched2 = sched.clone();
                let addr = addrs[*m].clone();
                let (kind, i, v) = (*kind, *i, *v);
                let sy = use_sync(&case.models[*m], *m, i);
                let th = std::thread::spawn(move || -> u8 {
                    macro_rules! go {
                        ($f:path) => {
                            match kind {
                                0 => sched_code(&sched2.schedule_event(g, $f, v, &addr)),
                                1 => sched_code(&sched2.schedule_keyed_event(g, $f, v, &addr).map(|_| ())),
                                2 => sched_code(&sched2.schedule_periodic_event(g, Duration::from_nanos(1000), $f, v, &addr)),
                                _ => sched_code(&sched2.schedule_keyed_periodic_event(g, Duration::from_nanos(1000), $f, v, &addr).map(|_| ())),
                            }
                        };
                    }
                    by_input!(i, sy, go)
                });
                // wait until the request is inside into_time, then step
                let _ = erx.recv_timeout(Duration::from_millis(2000));
                let sr = match simu.step() {
                    Ok(()) => "ok".to_string(),
                    Err(e) => err_str(e),
                };
                let _ = rtx.send(());
                let code = th.join().unwrap_or(9);
                format!("race:{}:{}", code, sr)
            }
            Cmd::SetTimeout(ms) => {
                if builder_timeout.is_none() {
                    simu.set_timeout(Duration::from_millis(*ms));
                }
                "ok".into()
            }
            Cmd::SinkOpen(k, o) => {
                use nexosim::ports::EventSinkStream;
                match (&mut sinks[*k], o) {
                    (SinkK::Buf(b), true) => b.open(),
                    (SinkK::Buf(b), false) => b.close(),
                    (SinkK::Slot(s), true) => s.open(),
                    (SinkK::Slot(s), false) => s.close(),
                }
                "ok".into()
            }
        };
        // When a call fails on the multi-threaded executor it returns at once; a worker that was in the middle of
        // a handler finishes that handler (and only that one) before it sees the abort signal.  Such a straggler
        // belongs to the failing command, not to the next one: give it the time to log before the log is drained.
        if case.threads > 1
            && ["panic", "norecip", "dead", "loss", "timeout", "oos"].iter().any(|k| r.starts_with(k))
        {
            std::thread::sleep(Duration::from_millis(40));
        }
        out.push(format!("{} @{} [{}]", r, ns(simu.time()), drain(&log)));
    }
    // the simulation goes first: dropping a never-added mailbox while a sender task is still blocked
    // on it would wake that task from outside the executor (which panics by design)
    *probe.lock().unwrap() = None;
    // the Scheduler handle is dropped before or after the simulation (a parity of the case decides)
    if (n + case.cmds.len()) % 2 == 1 {
        drop(sched);
        drop(simu);
    } else {
        drop(simu);
        drop(sched);
    }
    // every model that was added (sub-models included) must have been dropped exactly once by now;
    // models never added are still owned by this function
    let drops = SM_DROPS.load(std::sync::atomic::Ordering::SeqCst);
    let handler_log_after_drop = drain(&log);
    drop(orphans);
    let nm: Vec<String> = NM_STATS
        .iter()
        .map(|c| c.load(std::sync::atomic::Ordering::SeqCst).to_string())
        .collect();
    format!("{} || D:{}:[{}] N:{}", out.join(" | "), drops, handler_log_after_drop, nm.join(":"))
}
