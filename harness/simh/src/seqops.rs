//! Operation sequences on the public sink types.
use nexosim::ports::{EventBuffer, EventSink, EventSinkStream, EventSinkWriter, EventSlot};

fn opt(v: Option<i64>) -> String {
    match v {
        None => "n".to_string(),
        Some(v) => format!("s,{}", v),
    }
}

fn run_sink<S>(mut sink: S, ops: &[&str]) -> String
where
    S: EventSink<i64> + EventSinkStream + Iterator<Item = i64>,
{
    let writer = sink.writer();
    let mut out = Vec::new();
    for op in ops {
        let f: Vec<&str> = op.split(',').collect();
        match f[0] {
            "w" => {
                writer.write(f[1].parse().unwrap());
                out.push("n".to_string());
            }
            "r" => out.push(opt(sink.next())),
            "o" => {
                sink.open();
                out.push("n".to_string());
            }
            "c" => {
                sink.close();
                out.push("n".to_string());
            }
            _ => panic!("bad op"),
        }
    }
    out.join(" ")
}

pub fn run_case(line: &str) -> String {
    let w: Vec<&str> = line.split_whitespace().collect();
    if w.is_empty() {
        return String::new();
    }
    match w[0] {
        "ebuf" => {
            let cap: usize = w[1].parse().unwrap();
            let open = w[2] == "1";
            let sink = if open {
                EventBuffer::with_capacity(cap)
            } else {
                EventBuffer::with_capacity_closed(cap)
            };
            run_sink(sink, &w[3..])
        }
        "eslot" => {
            let open = w[1] == "1";
            let sink = if open { EventSlot::new() } else { EventSlot::new_closed() };
            run_sink(sink, &w[2..])
        }
        k => format!("ERR unknown-kind {}", k),
    }
}
