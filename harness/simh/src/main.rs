//! simh: drives the real nexosim crate through its public API.
mod seqops;

use std::io::{BufRead, Write};

fn main() {
    let args: Vec<String> = std::env::args().collect();
    let mode = args.get(1).map(|s| s.as_str()).unwrap_or("seq");
    match mode {
        "seq" => {
            let stdin = std::io::stdin();
            let stdout = std::io::stdout();
            let mut out = stdout.lock();
            for line in stdin.lock().lines() {
                let line = line.unwrap();
                let r = std::panic::catch_unwind(|| seqops::run_case(&line));
                match r {
                    Ok(s) => writeln!(out, "{}", s).unwrap(),
                    Err(_) => writeln!(out, "PANIC").unwrap(),
                }
            }
        }
        _ => {
            eprintln!("unknown mode {}", mode);
            std::process::exit(2);
        }
    }
}
