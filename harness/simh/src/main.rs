//! simh: drives the real nexosim crate through its public API.
mod bench;
mod seqops;

use std::io::{BufRead, Write};

fn main() {
    let args: Vec<String> = std::env::args().collect();
    let mode = args.get(1).map(|s| s.as_str()).unwrap_or("seq");
    match mode {
        "seq" => {
            let stdin = std::io::stdin();
            let stdout = std::io::stdout();
            let mut out = stdout.lock();
            for line in stdin.lock().lines() {
                let line = line.unwrap();
                let r = std::panic::catch_unwind(|| seqops::run_case(&line));
                match r {
                    Ok(s) => writeln!(out, "{}", s).unwrap(),
                    Err(_) => writeln!(out, "PANIC").unwrap(),
                }
            }
        }
        "bench" => {
            // one sim case per line; each runs in its own thread under a watchdog: a call that
            // never returns is an observation ("HANG"), after which the process exits (the
            // orchestrator restarts the runner on the remaining cases).
            std::panic::set_hook(Box::new(|_| {}));
            let timeout_ms: u64 = args.get(2).and_then(|s| s.parse().ok()).unwrap_or(15000);
            let stdin = std::io::stdin();
            let stdout = std::io::stdout();
            for line in stdin.lock().lines() {
                let line = line.unwrap();
                let (tx, rx) = std::sync::mpsc::channel();
                let l2 = line.clone();
                std::thread::spawn(move || {
                    let r = std::panic::catch_unwind(|| {
                        let w: Vec<&str> = l2.split_whitespace().collect();
                        if w.is_empty() || w[0] != "sim" {
                            return "ERR not-a-sim-case".to_string();
                        }
                        let case = bench::parse(&w[1..]);
                        bench::run(&case)
                    });
                    let _ = tx.send(match r {
                        Ok(s) => s,
                        Err(_) => "HARNESS-PANIC".to_string(),
                    });
                });
                match rx.recv_timeout(std::time::Duration::from_millis(timeout_ms)) {
                    Ok(s) => {
                        let mut out = stdout.lock();
                        writeln!(out, "{}", s).unwrap();
                        out.flush().unwrap();
                    }
                    Err(_) => {
                        let mut out = stdout.lock();
                        writeln!(out, "HANG").unwrap();
                        out.flush().unwrap();
                        std::process::exit(3);
                    }
                }
            }
        }
        _ => {
            eprintln!("unknown mode {}", mode);
            std::process::exit(2);
        }
    }
}
