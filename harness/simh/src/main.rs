//! simh: drives the real nexosim crate through its public API.
mod bench;
mod seqops;

use std::io::{BufRead, Write};

/// Counting allocator: live bytes, used to observe leaks when a simulation is dropped.
pub struct CountAlloc;
pub static LIVE_BYTES: std::sync::atomic::AtomicIsize = std::sync::atomic::AtomicIsize::new(0);
unsafe impl std::alloc::GlobalAlloc for CountAlloc {
    unsafe fn alloc(&self, l: std::alloc::Layout) -> *mut u8 {
        LIVE_BYTES.fetch_add(l.size() as isize, std::sync::atomic::Ordering::Relaxed);
        std::alloc::System.alloc(l)
    }
    unsafe fn dealloc(&self, p: *mut u8, l: std::alloc::Layout) {
        LIVE_BYTES.fetch_sub(l.size() as isize, std::sync::atomic::Ordering::Relaxed);
        std::alloc::System.dealloc(p, l)
    }
    unsafe fn realloc(&self, p: *mut u8, l: std::alloc::Layout, new_size: usize) -> *mut u8 {
        LIVE_BYTES.fetch_add(new_size as isize - l.size() as isize, std::sync::atomic::Ordering::Relaxed);
        std::alloc::System.realloc(p, l, new_size)
    }
}
#[global_allocator]
static GLOBAL: CountAlloc = CountAlloc;

fn main() {
    let args: Vec<String> = std::env::args().collect();
    let mode = args.get(1).map(|s| s.as_str()).unwrap_or("seq");
    match mode {
        "seq" => {
            let stdin = std::io::stdin();
            let stdout = std::io::stdout();
            let mut out = stdout.lock();
            for line in stdin.lock().lines() {
                let line = line.unwrap();
                let r = std::panic::catch_unwind(|| seqops::run_case(&line));
                match r {
                    Ok(s) => writeln!(out, "{}", s).unwrap(),
                    Err(_) => writeln!(out, "PANIC").unwrap(),
                }
            }
        }
        "bench" => {
            // one sim case per line; each runs in its own thread under a watchdog: a call that
            // never returns is an observation ("HANG"), after which the process exits (the
            // orchestrator restarts the runner on the remaining cases).
            std::panic::set_hook(Box::new(|_| {}));
            let timeout_ms: u64 = args.get(2).and_then(|s| s.parse().ok()).unwrap_or(15000);
            let stdin = std::io::stdin();
            let stdout = std::io::stdout();
            // ONE long-lived thread runs all the cases of this process, so that the lazily initialised per-thread
            // state (thread-local contexts of std channels, parkers, ...) is a one-off of the process and that nothing
            // of the previous case is torn down while the next one measures its allocations
            let (ltx, lrx) = std::sync::mpsc::channel::<String>();
            let (tx, rx) = std::sync::mpsc::channel::<String>();
            std::thread::spawn(move || {
                for l2 in lrx {
                    let r = std::panic::catch_unwind(|| {
                        let w: Vec<&str> = l2.split_whitespace().collect();
                        if w.is_empty() || w[0] != "sim" {
                            return "ERR not-a-sim-case".to_string();
                        }
                        let case = bench::parse(&w[1..]);
                        let before = LIVE_BYTES.load(std::sync::atomic::Ordering::SeqCst);
                        let mut out = bench::run(&case);
                        // everything the case created has been dropped by now, except the result string
                        let after = LIVE_BYTES.load(std::sync::atomic::Ordering::SeqCst) - out.capacity() as isize;
                        out.push_str(&format!(" A:{}", after - before));
                        out
                    });
                    let _ = tx.send(match r {
                        Ok(s) => s,
                        Err(_) => "HARNESS-PANIC".to_string(),
                    });
                }
            });
            for line in stdin.lock().lines() {
                let line = line.unwrap();
                if ltx.send(line).is_err() {
                    break;
                }
                match rx.recv_timeout(std::time::Duration::from_millis(timeout_ms)) {
                    Ok(s) => {
                        let mut out = stdout.lock();
                        writeln!(out, "{}", s).unwrap();
                        out.flush().unwrap();
                    }
                    Err(_) => {
                        let mut out = stdout.lock();
                        writeln!(out, "HANG").unwrap();
                        out.flush().unwrap();
                        std::process::exit(3);
                    }
                }
            }
        }
        _ => {
            eprintln!("unknown mode {}", mode);
            std::process::exit(2);
        }
    }
}
